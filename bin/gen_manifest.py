#!/usr/bin/env python3
"""Regenerates /verif/MANIFEST.json from the table below (run after adding a check)."""
import json, os
ROOT = os.path.dirname(os.path.dirname(os.path.abspath(__file__)))
props = [json.loads(l) for l in open(os.path.join(ROOT, "properties.jsonl"))]

E1 = "E1 explicit-state operation-sequence explorer on the real Package"
E2 = "E2 bounded-exhaustive shape enumerator against an independent reference"
E3 = "E3 deviation-bounded environment (fault / corruption) enumerator"

# id -> (engine, level category, technique, level text, level note, design ref)
CHECKS = {
 "C13": (E2, "model_checking",
   "bounded-exhaustive enumeration of expression trees (all operators x literal domain, 4 builds, closure to depth 2/3) on the real Expr vs. reference evaluator",
   "Every expression of depth <= 2 over the property's literal set (depth 3 for integer operators in the thorough tier), in folded and lazy builds, and as WHERE clause of select/update/delete, is evaluated by the real library and compared with an independent evaluator; construction and evaluation are wrapped so that any panic is a violation. Exhaustive inside the stated bounds, silent outside them.",
   "Trusted: the reference evaluator in mc/msimc/src/val.rs (written from the doc comments; accepts null or wrapped value on overflow, 0 or 1 for ordered comparison of different kinds). Values outside the literal set and deeper trees are not covered.",
   "DESIGN.md §4 C13"),
 "C19": (E2, "model_checking",
   "bounded-exhaustive enumeration of expression trees and query shapes; print, parse with an independent precedence parser, re-evaluate on real rows",
   "All 3.4 M trees of depth <= 2 over the 20 operators (quick: 4 leaves, thorough: 5 leaves + all depth-3 operator chains) are printed by the library, read back by an independent parser implementing the grammar's precedence ladder, rebuilt, and evaluated by the library next to the original on 49 real rows; 15 k queries of all four kinds are compared structurally.",
   "Trusted: the precedence parser in val.rs (most permissive reading of msiquery.pest). Identifiers/strings needing escapes are out of scope, as in the property.",
   "DESIGN.md §4 C19"),
 "C14": (E2, "model_checking",
   "exhaustive enumeration of all Unicode scalar values x 26 code pages, all 1-/2-byte (and lead-restricted 3-byte) sequences, buffer-boundary strings, identifier space; reference = the named encodings by WHATWG label",
   "Every (character, code page) pair is encoded, decoded back and compared with the encoding the documentation names; every short byte sequence is decoded and compared; strings of every length around the 1024-byte internal buffer are checked for the concatenation law; from_id is swept over the identifier space (all 2^32 in the thorough tier). Complete for the per-character laws.",
   "Trusted: encoding_rs addressed by label without BOM handling as the meaning of each code page's name; for 28591 both true Latin-1 and the WHATWG reading are accepted. 21 (page, character) pairs are known findings (dependency encoder quirks).",
   "DESIGN.md §4 C14"),
 "C17": (E2, "model_checking",
   "exhaustive enumeration of all 65,536 language codes and of bounded tag strings",
   "All codes are checked for code preservation, total tag lookup, tag round trip and per-primary-id structure; every tag in the image of tag() must map to the smallest code carrying it; 48 Windows identifier/tag pairs; all tag strings ll, lll, ll-RR, lll-RR over the tier's alphabets (thorough: full a-z / A-Z, 12.4 M strings), every known language x all 676 regions in both tiers.",
   "Trusted: the list of 48 well-known identifiers (MS-LCID); 'known language' is derived from the image of tag(), not from the private table.",
   "DESIGN.md §4 C17"),
 "C18": (E2, "model_checking",
   "exhaustive enumeration of tick neighbourhoods around 71 anchors x sub-tick nanoseconds, platform extremes, regular lattice; in memory and through save/reopen",
   "Every tick within the radius of every anchor (1601, 1970, tick maximum, every power of two) with every sub-tick nanosecond offset is set, read, set again and compared for drift < 100 ns, idempotence, monotonicity and saturation; the same through save + reopen for the anchor sets; a regular lattice covers the range in between.",
   "Trusted: i128 nanosecond arithmetic in c18.rs. x86-64 Linux SystemTime only. The property's 'random times' are replaced by the lattice (piecewise-linear argument in DESIGN.md).",
   "DESIGN.md §4 C18"),
 "C01": (E1, "model_checking",
   "explicit-state BFS over operation sequences on the real Package (re-execution, canonical state key); every distinct state closed 3 ways, reopened, re-saved",
   "All sequences of table/row/stream/summary/code-page operations up to the completed depth are executed on the real library; every distinct state is closed by flush (bytes copied while the package is alive = crash right after the flush), by into_inner and by drop; each result is reopened and compared with the full API observation before closing (\"\" == null), then saved and reopened again. Complete up to max_depth_completed over the stated alphabet.",
   "Trusted: snapshot/compare code, the state-key argument of DESIGN.md §3.1 (audited at run time by merge audits). Values outside the alphabet and deeper sequences are not covered.",
   "DESIGN.md §4 C01"),
 "C03": (E1, "model_checking",
   "explicit-state BFS over DML sequences on the real Package with a relational reference model stepped in lock-step; select battery in every state",
   "After every transition of every sequence up to the completed depth the complete observation (all tables including the catalog, streams, summary) is compared with a plain relational model, and every distinct state runs a battery of selects (conditions x projections; order, reported length, Row indexing). Merge audits and a no-dedup enumeration check the state key.",
   "Trusted: the relational model in ops.rs, the reference expression evaluator, the state-key argument. 'Randomly beyond the depth' is sampling and not done.",
   "DESIGN.md §4 C03"),
 "C04": (E1, "model_checking",
   "explicit-state BFS; every reachable state x invalid-call menu; before/after and save+reopen comparison for every call that returns an error",
   "Every state of the DML exploration is subjected to each of 65 invalid calls (all documented failure kinds, including late create-table failures and batches whose last row is bad); for every call that returns Err the full observation before and after, and after save + reopen, must be identical. Rejected alphabet operations are checked the same way.",
   "Trusted: snapshot/compare code. The menu is finite; failure kinds not in it are not covered.",
   "DESIGN.md §4 C04"),
 "C05": (E1, "model_checking",
   "explicit-state BFS; invariant monitor (unique ascending keys, valid cells) in every reachable state, live and after reopen",
   "Invariant checked in every distinct state of the DML exploration (which contains key updates to a constant, order-changing key updates, batch inserts, delete/insert cycles, nullable string keys) and again on the reopened state.",
   "Trusted: the validity reference in spec.rs (three-valued; a stored null in a string column counts as the empty string).",
   "DESIGN.md §4 C05"),
 "C08": (E1, "model_checking",
   "explicit-state BFS; saved bytes of every state x 3 close modes decoded by an independent decoder; exact string accounting",
   "For every distinct state and each way of closing, the bytes are decoded by a decoder written from the format description: whole column-major rows, offset-binary integers, live string references, catalog = existing tables numbered 1..n, refcount(entry) = number of referring cells in all tables, unused entries empty, no live empty entry, decoded rows = model rows.",
   "Trusted: dec.rs (independent decoder), cfb for the container layer, encoding_rs by label for text.",
   "DESIGN.md §4 C08"),
 "C10": (E1, "model_checking",
   "explicit-state BFS over summary setters/clearers/code-page switches on the real Package + bounded-exhaustive product code page x property x string length class; strict independent property-set parser",
   "E1: every sequence over the summary alphabet up to the completed depth; after each step the getters equal the model, every state is saved three ways, the raw summary stream is parsed by a strict independent parser (aligned offsets pointing at typed values, exact section size, values equal to the model's in the chosen code page) and the file is reopened. E2: 26 code pages x 6 string properties x strings of every (UTF-8 length, encoded length) residue class.",
   "Trusted: dec.rs parse_summary, encoding_rs by label for representability. Architecture strings without ';'.",
   "DESIGN.md §4 C10"),
 "C11": (E1, "model_checking",
   "explicit-state BFS over stream write/overwrite/remove on a set of colliding names x contents, interleaved with table operations and reopen; raw container listing as second oracle",
   "Every sequence up to the completed depth over names forced to collide (case pairs, packing-range characters, table marker, reserved characters, table names, \\u{5} names, 31/32-unit names) and contents on both sides of the mini-stream cutoff; after each step listing and contents equal the model; in every state every name of the set is probed with has_stream/read_stream, the raw container entry list is compared with the listing, and the package is saved and reopened; a second exploration starts from a signed seed.",
   "Trusted: the stream-name reference in ops.rs (what must be accepted / refused / is left open), dec.rs name mangler.",
   "DESIGN.md §4 C11"),
 "C06": (E2, "model_checking",
   "bounded-exhaustive factored product over column definitions (type word: every string width x flags x category; validation row: ranges x categories x enum lists x foreign keys; lists and names), each created on the real Package, observed, saved, reopened",
   "Every case is one create_table on a fresh package: if accepted, all attribute getters equal the request immediately and after save + reopen (the foreign key via the independent decoder); if refused, the package is identical to a fresh one. G1 covers every string width 0..=65535 x 8 flag combinations x 3 categories; G2 the full product of 7 ranges x 27 categories x 10 enum lists x 6 foreign keys x nullable x 3 types; G3 every column count 1..33 and names of every length 1..66.",
   "Trusted: the factoring argument (type word and validation row are independent records); snapshot code; dec.rs for the foreign key.",
   "DESIGN.md §4 C06"),
 "C07": (E2, "model_checking",
   "bounded-exhaustive: (column definition x value) product for gate equivalence; all strings up to a length over per-category adversarial alphabets vs a three-valued grammar reference; GUID mutants; library-built values",
   "insert Ok <=> update Ok <=> is_valid_value <=> reference for 150 column definitions x 52 values and all arities 0..33; every string of length <= 5 (thorough 7) over each category's alphabet for all 26 categories, all single (thorough double) substitutions/deletions/insertions of a valid GUID; Value::from(Uuid) / Value::from(&[Language]) over structured sets. Panics are violations.",
   "Trusted: the three-valued reference in spec.rs (accept/reject demanded, 'unspecified' only totality). Random strings are sampling and not done.",
   "DESIGN.md §4 C07, appendix B"),
 "C12": (E2, "model_checking",
   "bounded-exhaustive enumeration of select trees (filters, projections, inner/left joins, self-joins, joins of joins) x all small table contents vs a reference nested-loop evaluator",
   "Every tree of the family (173 k in the thorough tier) is executed on the real package for every content of two base tables with <= 2 rows over {null,1,2} (256 contents) and compared with the reference: Ok/Err, column names, rows in order, reported length, nullability of the right side of a left join; unknown tables/columns in every position must be errors, never panics.",
   "Trusted: the reference evaluator in c12.rs (appendix C); ambiguous names (self-joins) only totality.",
   "DESIGN.md §4 C12"),
}
PENDING_REASON = "check not built yet (work in progress; DESIGN.md names the planned engine)"

checks = []
for pid, (engine, cat, tech, text, note, ref) in sorted(CHECKS.items()):
    checks.append({
        "property_id": pid,
        "quick_cmd": f"bin/check {pid} quick",
        "thorough_cmd": f"bin/check {pid} thorough",
        "evidence_file": f"/verif/evidence/{pid}.json",
        "replay_cmd_template": "mc/target/release/msimc replay {path}",
        "engine": engine,
        "level_claimed": {"category": cat, "text": text, "design_ref": ref},
        "level_note": note,
        "technique": tech,
    })
na = [{"property_id": p["id"], "reason": PENDING_REASON} for p in props if p["id"] not in CHECKS]
m = {
 "version": 1,
 "setup_cmd": "bin/setup",
 "hooks": {
   "guard": "",
   "enable": "no source hooks: everything is observed through the public API, a harness-owned medium (mc/msimc/src/medium.rs) and the saved bytes; msi is built from /repo's working tree as a path dependency with debug assertions and overflow checks on",
   "baseline_off_cmd": "cd /repo && cargo test --workspace --no-fail-fast --offline",
   "source_commits": [],
   "add_only": True},
 "engines": [
   {"name": "E1", "path": "mc/msimc/src", "kind_free_text": E1, "serves_properties": [k for k, v in CHECKS.items() if v[0] == E1]},
   {"name": "E2", "path": "mc/msimc/src", "kind_free_text": E2, "serves_properties": [k for k, v in CHECKS.items() if v[0] == E2]},
   {"name": "E3", "path": "mc/msimc/src", "kind_free_text": E3, "serves_properties": [k for k, v in CHECKS.items() if v[0] == E3]},
 ],
 "checks": checks,
 "not_applicable": na,
 "notes": "One binary (mc/target/release/msimc) serves every check; bin/check rebuilds it and msi from /repo's working tree before each run. Exit 0 held / 1 violation / 2 machinery failure. Genuine defects found and repaired are listed in known_findings.json (status fixed) with their fix: commits in /repo.",
}
json.dump(m, open(os.path.join(ROOT, "MANIFEST.json"), "w"), indent=1)
print("checks:", len(checks), "not_applicable:", len(na))

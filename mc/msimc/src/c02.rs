//! C02 — independently encoded MSI databases are read exactly.
//! E2: the independent encoder (enc.rs) is driven over a factored product of
//! format knobs; every file is opened and compared with the abstract database;
//! then every operation of a small alphabet (depth 1, thorough depth 2) is
//! applied and the saved result is decoded by the independent decoder.

use crate::dec;
use crate::enc::*;
use crate::ops::{Harness, Model, Op, Outcome, SumOp};
use crate::report::{Report, Tier};
use crate::snapshot::snapshot;
use crate::spec::{ColSpec, Ty};
use crate::val::{Bin, Val, E};
use rayon::prelude::*;
use serde_json::json;

#[derive(Clone, Copy, Debug, PartialEq, Eq)]
enum Kind {
    I16,
    I16Quirk,
    I32,
    Str,
}

const KINDS: [Kind; 4] = [Kind::I16, Kind::I16Quirk, Kind::I32, Kind::Str];

fn col_for(i: usize, k: Kind, key: bool) -> EncCol {
    let name = format!("C{}", i + 1);
    let mut spec = match k {
        Kind::I16 | Kind::I16Quirk => ColSpec::new(&name, Ty::I16),
        Kind::I32 => ColSpec::new(&name, Ty::I32),
        Kind::Str => ColSpec::new(&name, Ty::Str(if i % 2 == 0 { 0 } else { 20 })),
    };
    if key {
        spec = spec.key();
    } else {
        spec = spec.nullable();
        if k == Kind::Str && i % 2 == 1 {
            spec = spec.localizable().category("Text");
        }
        if k == Kind::I32 {
            spec = spec.range(-5, 2147483647);
        }
    }
    EncCol { spec, width1_quirk: k == Kind::I16Quirk }
}

fn value_for(k: Kind, key: bool, row: usize, text: &[String]) -> Val {
    match (k, key) {
        (Kind::I16, true) | (Kind::I16Quirk, true) => Val::Int([-32767, 1, 32767][row]),
        (Kind::I32, true) => Val::Int([-2147483647, 2, 2147483647][row]),
        (Kind::Str, true) => Val::Str(text[row].clone()),
        (Kind::I16, false) | (Kind::I16Quirk, false) => [Val::Int(32767), Val::Null, Val::Int(-1)][row].clone(),
        (Kind::I32, false) => [Val::Null, Val::Int(2147483647), Val::Int(-5)][row].clone(),
        (Kind::Str, false) => [Val::Str(text[1].clone()), Val::Str(text[3].clone()), Val::Null][row].clone(),
    }
}

/// Strings (ascending) in the page's repertoire: ASCII plus a representable
/// non-ASCII character where the page has one.
fn texts(cp: i32) -> Vec<String> {
    let cands = ['\u{e9}', '\u{416}', '\u{3a9}', '\u{142}', '\u{5d0}', '\u{627}', '\u{e01}', '\u{3042}', '\u{4e2d}', '\u{d55c}'];
    let special = cands.iter().find(|c| {
        let s = c.to_string();
        crate::c14::ref_decode(cp, &crate::c14::ref_encode(cp, &s)) == s
    });
    let sp = special.map(|c| c.to_string()).unwrap_or_else(|| "q".to_string());
    // ascending by code point: ASCII sorts below the special character
    vec!["a".into(), format!("a{}", sp), format!("b{}b", sp), format!("c{}", sp.repeat(3))]
}

fn table_set(kinds: &[Kind], keypos: usize, name: &str, text: &[String]) -> EncTable {
    let cols: Vec<EncCol> = kinds.iter().enumerate().map(|(i, k)| col_for(i, *k, i == keypos)).collect();
    let rows: Vec<Vec<Val>> = (0..3).map(|r| kinds.iter().enumerate().map(|(i, k)| value_for(*k, i == keypos, r, text)).collect()).collect();
    EncTable { name: name.to_string(), cols, rows }
}

fn wide_table(text: &[String]) -> EncTable {
    let kinds: Vec<Kind> = (0..32).map(|i| KINDS[i % 4]).collect();
    let mut t = table_set(&kinds, 5, "Wide", text);
    // composite key: columns 6 and 7 as well
    t.cols[6].spec = t.cols[6].spec.clone().key();
    t.cols[6].spec.nullable = false;
    t.cols[6].spec.range = None;
    for (r, row) in t.rows.iter_mut().enumerate() {
        row[6] = Val::Int(r as i32 + 1);
    }
    t
}

#[derive(Clone)]
struct FileCase {
    label: String,
    group: &'static str,
    db: EncDb,
}

fn base_db(cp: u32, text: &[String]) -> EncDb {
    EncDb {
        ptype: 0,
        codepage_id: cp,
        long_refs: false,
        pool_style: PoolStyle::Dense,
        with_validation: true,
        row_order: RowOrder::Ascending,
        tables: vec![table_set(&[Kind::Str, Kind::I16, Kind::Str], 0, "A", text), table_set(&[Kind::I32, Kind::Str], 0, "B", text)],
        streams: vec![("Binary.one".into(), vec![1, 2, 3]), ("big".into(), (0..5000u32).map(|i| (i % 251) as u8).collect())],
        summary: default_summary(),
        extra_pool_strings: vec![],
        ghost_strings: vec![],
    }
}

fn pool_shapes() -> Vec<(&'static str, PoolStyle, bool)> {
    vec![
        ("dense", PoolStyle::Dense, false),
        // unused entries that still carry text (one of them the text that the
        // modification alphabet inserts): name "ghosts" is matched below
        ("ghosts", PoolStyle::Holes, false),
        ("holes", PoolStyle::Holes, false),
        ("duplicates", PoolStyle::Duplicates, false),
        ("overcounted", PoolStyle::OverCounted, false),
        ("long-string", PoolStyle::Dense, true),
        // a long string whose reference count differs from the high word of
        // its length (over-counted: count 6; duplicates: split references)
        ("long-string-overcounted", PoolStyle::OverCounted, true),
        ("long-string-holes", PoolStyle::Holes, true),
    ]
}

fn cases(tier: Tier) -> Vec<FileCase> {
    let mut out = Vec::new();
    // ---- text group: code page x pool shape x property-set layout ---------
    let mut ids: Vec<u32> = vec![0];
    ids.extend(crate::c14::PAGES.iter().map(|p| p.0 as u32));
    for cp in &ids {
        let tcp = if *cp == 0 { 65001 } else { *cp as i32 };
        let text = texts(tcp);
        for (pname, style, long) in pool_shapes() {
            for order in [PropOrder::Ascending, PropOrder::Descending, PropOrder::CodepageLast] {
                for pad in [0u32, 4] {
                    for so in [48u32, 64] {
                        let mut db = base_db(*cp, &text);
                        db.pool_style = style;
                        if pname == "ghosts" {
                            db.ghost_strings = vec![format!("{}z", text[0]), "ghost".into(), text[1].clone()];
                        }
                        if long {
                            let big = format!("{}{}", text[1], "x".repeat(70000));
                            // referenced twice (count 2, high word of the length 1)
                            db.tables[1].rows[0][1] = Val::Str(big.clone());
                            db.tables[1].rows[2][1] = Val::Str(big);
                            // and one of 140000 bytes referenced once (count 1, high word 2)
                            db.tables[0].rows[1][2] = Val::Str(format!("{}{}", text[0], "y".repeat(140000)));
                            // both sides of the 16-bit length boundary
                            db.tables[0].rows[0][2] = Val::Str("z".repeat(65535));
                            db.tables[0].rows[2][2] = Val::Str("w".repeat(65536));
                        }
                        db.summary.order = order;
                        db.summary.extra_padding = pad;
                        db.summary.section_offset = so;
                        // the summary strings use the same code page as the database
                        db.summary.codepage = Some(if tcp == 65001 { 65001u32 as u16 } else { tcp as u16 });
                        db.summary.author = Some(text[2].clone());
                        db.summary.comments = Some(text[3].clone());
                        // half of the layouts are version-1 sets carrying a one-byte
                        // integer property that is neither first nor last
                        if pad == 4 {
                            db.summary.format_version = 1;
                            db.summary.extra_i1 = Some((10, -7));
                        }
                        // an empty string stored with size 0 (no terminator)
                        if so == 48 && pad == 0 {
                            db.summary.subject = Some(String::new());
                            db.summary.empty_as_size_zero = true;
                        }
                        // the first and the last representable creation time
                        // are times like any other
                        if so == 64 {
                            db.summary.creation_ticks_1601 = Some(if pad == 4 { u64::MAX >> 1 } else { 0 });
                        }
                        out.push(FileCase { label: format!("cp{}/pool-{}/props-{:?}/pad{}/off{}", cp, pname, order, pad, so), group: "text", db });
                    }
                }
            }
        }
    }
    // ---- structure group ----------------------------------------------------
    let text = texts(65001);
    let mut sets: Vec<(String, Vec<EncTable>)> = Vec::new();
    for a in KINDS {
        sets.push((format!("{:?}", a), vec![table_set(&[a], 0, "A", &text)]));
        for b in KINDS {
            for kp in 0..2 {
                sets.push((format!("{:?}-{:?}/key{}", a, b, kp), vec![table_set(&[a, b], kp, "A", &text)]));
            }
            if tier.thorough() {
                for c in KINDS {
                    for kp in 0..3 {
                        sets.push((format!("{:?}-{:?}-{:?}/key{}", a, b, c, kp), vec![table_set(&[a, b, c], kp, "A", &text)]));
                    }
                }
            }
        }
    }
    sets.push(("32-columns".into(), vec![wide_table(&text), table_set(&[Kind::Str], 0, "A", &text)]));
    sets.push(("empty-table".into(), vec![EncTable { rows: vec![], ..table_set(&[Kind::I16, Kind::Str], 0, "A", &text) }]));
    for long_refs in [false, true] {
        for (pname, style, long) in pool_shapes() {
            for (sname, tables) in &sets {
                for order in [RowOrder::Ascending, RowOrder::Descending, RowOrder::Interleaved] {
                    for val in [true, false] {
                        for ptype in 0..3u8 {
                            // package type is independent of everything else: vary it along, not across
                            if ptype != (sname.len() + order as usize + val as usize) as u8 % 3 && !tier.thorough() {
                                continue;
                            }
                            let mut db = base_db(65001, &text);
                            db.tables = tables.clone();
                            db.long_refs = long_refs;
                            db.pool_style = style;
                            if pname == "ghosts" {
                                db.ghost_strings = vec![format!("{}z", text[0]), "ghost".into(), text[1].clone()];
                            }
                            db.row_order = order;
                            db.with_validation = val;
                            db.ptype = ptype;
                            db.summary.codepage = Some(65001u32 as u16);
                            if long {
                                db.extra_pool_strings = vec!["y".repeat(66000)];
                                // make a cell refer to it as well when there is a string column
                                for t in db.tables.iter_mut() {
                                    for (ci, c) in t.cols.iter().enumerate() {
                                        if matches!(c.spec.ty, Ty::Str(0)) && !c.spec.key && !t.rows.is_empty() {
                                            t.rows[0][ci] = Val::Str("y".repeat(66000));
                                            break;
                                        }
                                    }
                                }
                            }
                            out.push(FileCase { label: format!("refs{}/pool-{}/{}/{:?}/val{}/type{}", if long_refs { 3 } else { 2 }, pname, sname, order, val, ptype), group: "structure", db });
                        }
                    }
                }
            }
        }
    }
    out
}

fn row_for(t: &EncTable, text: &[String]) -> Vec<Val> {
    t.cols
        .iter()
        .map(|c| match (&c.spec.ty, c.spec.key) {
            (Ty::Str(_), true) => Val::Str(format!("{}z", text[0])),
            (Ty::Str(_), false) => Val::Str(text[0].clone()),
            (Ty::I16, true) => Val::Int(9),
            (Ty::I32, true) => Val::Int(9),
            (_, false) => Val::Int(4),
        })
        .collect()
}

fn mod_ops(db: &EncDb) -> Vec<Op> {
    let text = texts(db.text_cp());
    let t = &db.tables[0];
    let keyc = t.cols.iter().find(|c| c.spec.key).unwrap();
    let first_key: E = match keyc.spec.ty {
        Ty::Str(_) => E::bin(Bin::Eq, E::col(&keyc.spec.name), E::Lit(Val::Str(text[0].clone()))),
        Ty::I16 => E::bin(Bin::Eq, E::col(&keyc.spec.name), E::int(1)),
        Ty::I32 => E::bin(Bin::Eq, E::col(&keyc.spec.name), E::int(2)),
    };
    let mut ops = vec![
        Op::Insert { table: t.name.clone(), rows: vec![row_for(t, &text)] },
        Op::Delete { table: t.name.clone(), cond: Some(first_key.clone()) },
        Op::Delete { table: t.name.clone(), cond: None },
        Op::CreateTable { name: "New".into(), cols: vec![ColSpec::new("K", Ty::I16).key(), ColSpec::new("S", Ty::Str(10)).nullable()] },
        Op::DropTable { name: t.name.clone() },
        Op::WriteStream { name: "added".into(), len: 100, seed: 5 },
        Op::RemoveStream { name: "big".into() },
        Op::Summary(SumOp::SetAuthor("me".into())),
        Op::Reopen,
        // rows with strings in a table created in this session (only
        // meaningful after the create above: always run as a pair)
        Op::Insert { table: "New".into(), rows: vec![vec![Val::Int(1), Val::Str(text[1].clone())], vec![Val::Int(2), Val::Str(text[0].clone())], vec![Val::Int(3), Val::Null]] },
    ];
    if let Some(nk) = t.cols.iter().find(|c| !c.spec.key) {
        let v = match nk.spec.ty {
            Ty::Str(_) => Val::Str(text[1].clone()),
            _ => Val::Int(3),
        };
        ops.push(Op::Update { table: t.name.clone(), sets: vec![(nk.spec.name.clone(), v)], cond: Some(first_key) });
    }
    ops
}

type V = (String, String);

fn check_file(c: &FileCase, depth: usize) -> (u64, Vec<V>) {
    let mut out = Vec::new();
    let mut n = 0u64;
    let bytes = encode(&c.db);
    let want = expected_snapshot(&c.db);
    // self-test of the trusted base: dec(enc(db)) is well-formed
    match dec::decode(&bytes) {
        Err(e) => return (0, vec![("machinery:encoder-output-undecodable".into(), format!("{}: {}", c.label, e))]),
        Ok(d) => {
            if let Some(p) = d.problems.first() {
                return (0, vec![("machinery:encoder-output-malformed".into(), format!("{}: {}", c.label, p))]);
            }
        }
    }
    let mut h = match Harness::open(bytes.clone()) {
        Ok(h) => h,
        Err(e) => {
            return (1, vec![(format!("open-fails:{}:{}", c.group, knob_class(&c.label, &e)), format!("{}: a well-formed database is refused: {}", c.label, e))]);
        }
    };
    n += 1;
    let got = match snapshot(h.p()) {
        Ok(s) => s,
        Err(p) => return (n, vec![(format!("panic:{}", crate::report::panic_site(&p)), format!("{}: reading panicked: {}", c.label, p))]),
    };
    if let Some(d) = want.diff(&got) {
        out.push((format!("read-differs:{}:{}", c.group, diff_kind(&d)), format!("{}: encoded vs reported: {}", c.label, d)));
        return (n, out);
    }
    // reading must not have written
    let writes = h.peek.writes();
    if writes != 0 {
        out.push(("open-and-read-wrote".into(), format!("{}: {} write calls while opening and reading", c.label, writes)));
    }
    drop(h);
    // modifications
    let ops = mod_ops(&c.db);
    let mut seqs: Vec<Vec<usize>> = (0..ops.len()).map(|i| vec![i]).collect();
    // create a table, fill it, (reopen)
    let ci = ops.iter().position(|o| matches!(o, Op::CreateTable { .. })).unwrap();
    let ii = ops.iter().position(|o| matches!(o, Op::Insert { table, .. } if table == "New")).unwrap();
    let ri = ops.iter().position(|o| matches!(o, Op::Reopen)).unwrap();
    seqs.push(vec![ci, ii]);
    seqs.push(vec![ci, ri, ii]);
    // a row whose text an unused entry of the file may still carry, followed
    // by operations that need fresh pool entries
    seqs.push(vec![0, ci, ii]);
    seqs.push(vec![0, ri, ci, ii]);
    if depth >= 2 {
        for i in 0..ops.len() {
            for j in 0..ops.len() {
                seqs.push(vec![i, j]);
            }
        }
    }
    for seq in seqs {
        n += 1;
        let mut h = match Harness::open(bytes.clone()) {
            Ok(h) => h,
            Err(e) => {
                out.push(("machinery:reopen".into(), e));
                break;
            }
        };
        let mut m = Model::from_snapshot(&want);
        let mut ok = true;
        let desc: Vec<String> = seq.iter().map(|&i| ops[i].show()).collect();
        for &i in &seq {
            let o = h.apply(&ops[i]);
            let e = m.apply(&ops[i], o.is_ok());
            match (&o, e) {
                (Outcome::Panic(p), _) => {
                    out.push((format!("modify-panic:{}:{}", ops[i].kind(), crate::report::panic_site(p)), format!("{}: {} panicked: {}", c.label, desc.join(" ; "), p)));
                    ok = false;
                    break;
                }
                (Outcome::Ok, crate::ops::Expect::Err) | (Outcome::Err(_), crate::ops::Expect::Ok) => {
                    out.push((format!("modify-enabledness:{}:{}", ops[i].kind(), c.group_knob()), format!("{}: {} -> {:?}, reference expects {:?}", c.label, desc.join(" ; "), o, e)));
                    ok = false;
                    break;
                }
                _ => {}
            }
            if h.pkg.is_none() {
                ok = false;
                break;
            }
        }
        if !ok || m.diverged {
            continue;
        }
        let after = match snapshot(h.p()) {
            Ok(s) => s,
            Err(p) => {
                out.push((format!("panic:{}", crate::report::panic_site(&p)), format!("{}: reading after {} panicked: {}", c.label, desc.join(" ; "), p)));
                continue;
            }
        };
        if let Some(d) = m.expected_snapshot().normalized().diff(&after.normalized()) {
            out.push((format!("modify-differs:{}:{}", ops[*seq.last().unwrap()].kind(), diff_kind(&d)), format!("{}: after {}: model vs package: {}", c.label, desc.join(" ; "), d)));
            continue;
        }
        let saved = match h.close_into_inner() {
            Ok(b) => b,
            Err(e) => {
                out.push(("save-fails".into(), format!("{}: after {}: {}", c.label, desc.join(" ; "), e)));
                continue;
            }
        };
        match dec::decode(&saved) {
            Err(e) => out.push((format!("saved-undecodable:{}", ops[*seq.last().unwrap()].kind()), format!("{}: after {}: {}", c.label, desc.join(" ; "), e))),
            Ok(d) => {
                // structural well-formedness (reference counts of a foreign
                // pool may legitimately stay over-counted: not checked here)
                for p in d.problems.iter().filter(|p| !p.starts_with("summary")) {
                    out.push((format!("saved-malformed:{}", ops[*seq.last().unwrap()].kind()), format!("{}: after {}: {}", c.label, desc.join(" ; "), p)));
                }
                // every dangling / dead reference is a defect regardless of counts
                for (tn, t) in d.tables.iter() {
                    for row in &t.rows {
                        for cell in row {
                            if let dec::Cell::Ref(id) = cell {
                                let live = (*id as usize) <= d.pool.len() && d.pool[*id as usize - 1].refcount > 0;
                                if !live {
                                    out.push((format!("saved-dead-reference:{}", ops[*seq.last().unwrap()].kind()), format!("{}: after {}: table {} refers to pool entry {} which is not live", c.label, desc.join(" ; "), tn, id)));
                                }
                            }
                        }
                    }
                }
                // decoded user tables equal the model
                let cp = m.db_codepage;
                for (name, tm) in &m.tables {
                    let dt = match d.tables.get(name) {
                        Some(t) => t,
                        None => {
                            out.push((format!("saved-table-missing:{}", ops[*seq.last().unwrap()].kind()), format!("{}: after {}: table {} is not in the saved catalog", c.label, desc.join(" ; "), name)));
                            continue;
                        }
                    };
                    let rows: Vec<Vec<Val>> = dt
                        .rows
                        .iter()
                        .map(|r| {
                            r.iter()
                                .map(|c| match c {
                                    dec::Cell::Null => Val::Null,
                                    dec::Cell::Int(n) => Val::Int(*n),
                                    dec::Cell::Ref(id) => d.text(*id).map(Val::Str).unwrap_or(Val::Null),
                                })
                                .collect()
                        })
                        .collect();
                    let want_rows: Vec<Vec<Val>> = tm
                        .rows
                        .iter()
                        .map(|r| {
                            r.iter()
                                .map(|v| match v.norm_empty() {
                                    Val::Str(s) => Val::Str(crate::c14::ref_decode(cp, &crate::c14::ref_encode(cp, &s))),
                                    v => v,
                                })
                                .collect()
                        })
                        .collect();
                    if rows != want_rows {
                        out.push((format!("saved-rows-differ:{}", ops[*seq.last().unwrap()].kind()), format!("{}: after {}: table {} decodes to {} expected {}", c.label, desc.join(" ; "), name, crate::snapshot::show_rows(&Ok(rows)), crate::snapshot::show_rows(&Ok(want_rows)))));
                    }
                }
            }
        }
        // and the library reads its own output back
        match Harness::open(saved) {
            Err(e) => out.push((format!("saved-unreadable:{}", ops[*seq.last().unwrap()].kind()), format!("{}: after {}: {}", c.label, desc.join(" ; "), e))),
            Ok(mut h2) => {
                if let Ok(s2) = snapshot(h2.p()) {
                    let mut m2 = m.clone();
                    m2.apply(&Op::Reopen, true);
                    if let Some(d) = m2.expected_snapshot().normalized().diff(&s2.normalized()) {
                        out.push((format!("saved-reopen-differs:{}:{}", ops[*seq.last().unwrap()].kind(), diff_kind(&d)), format!("{}: after {} and reopen: model vs package: {}", c.label, desc.join(" ; "), d)));
                    }
                }
            }
        }
    }
    (n, out)
}

impl FileCase {
    fn group_knob(&self) -> String {
        if self.group == "text" {
            "text".to_string()
        } else if self.label.contains("valfalse") {
            "without-validation".to_string()
        } else {
            "with-validation".to_string()
        }
    }
}

fn knob_class(label: &str, err: &str) -> String {
    let first = label.split('/').next().unwrap_or("");
    let e: String = err.chars().filter(|c| !c.is_ascii_digit()).take(40).collect();
    format!("{}:{}", if first.starts_with("cp") { "codepage" } else { first }, e)
}

fn diff_kind(d: &str) -> String {
    d.split_whitespace().take(3).filter(|w| !w.chars().any(|c| c.is_ascii_digit())).collect::<Vec<_>>().join("-")
}

pub fn run(tier: Tier) -> i32 {
    let mut rep = Report::new("C02", tier, "model_checking");
    rep.assume("the independent encoder enc.rs and decoder dec.rs are the trusted base; they are cross-checked on every generated file (dec(enc(db)) must be well-formed) before the library sees it");
    rep.assume("factoring: a code page touches only text, so code pages are varied with pool shapes and property-set layouts on a fixed two-table schema (text group), and reference width, column layouts, row order, _Validation presence and package type under UTF-8 (structure group)");
    let cs = cases(tier);
    let depth = if tier.thorough() { 2 } else { 1 };
    let results: Vec<(u64, Vec<V>)> = cs.par_iter().map(|c| check_file(c, depth)).collect();
    let mut total = 0u64;
    let mut text_n = 0u64;
    for (c, (n, vs)) in cs.iter().zip(results.into_iter()) {
        total += n;
        if c.group == "text" {
            text_n += 1;
        }
        for (sig, d) in vs {
            rep.violation(sig, d, json!({"kind":"c02","label":c.label}));
        }
    }
    rep.set("states", cs.len());
    rep.set("transitions", total);
    rep.set("traces_validated_against_impl", total);
    rep.set("evaluations", total);
    rep.set("distinct_nontrivial", cs.len());
    rep.set("files_generated", cs.len());
    rep.set("text_group_files", text_n);
    rep.set("structure_group_files", cs.len() as u64 - text_n);
    rep.set("modification_depth", depth);
    rep.set("exhaustive", true);
    rep.set("rule", "text group: 27 code-page ids (0 and the 26 supported) x 8 pool shapes (dense, unused entries that still carry text, holes, duplicates, over-counted, > 64 KiB strings dense / over-counted / with holes) x 12 property-set layouts (3 orders x 2 paddings x 2 section offsets), strings from each page's repertoire; structure group: 2 reference widths x 8 pool shapes x every column list of length 1..2 (thorough 1..3) over {int16, int16 stored with width byte 1, int32, string} with the key in every position, a 32-column table with a composite key, an empty table x 3 row orders x with/without _Validation x package type. Each file: open + full observation == abstract database; then every sequence of length <= depth over 10 modifying operations, compared with the model, saved, decoded by the independent decoder, reopened. distinct_nontrivial = generated files");
    rep.sample(json!({"label": cs[0].label}));
    rep.sample(json!({"label": cs[cs.len() - 1].label}));
    rep.finish()
}

pub fn replay(doc: &serde_json::Value) {
    let label = doc["label"].as_str().unwrap_or("");
    for c in cases(Tier::Thorough) {
        if c.label == label {
            let (n, vs) = check_file(&c, 2);
            println!("{} evaluations", n);
            for (s, d) in vs {
                println!("{}: {}", s, d);
            }
            return;
        }
    }
    println!("no such case");
}

//! C03, second part (E2): conditions as programs.  One call's effect is a
//! function of (table content, condition): for every content of <= 3 rows
//! over a small value domain x every expression tree of depth <= 1 over the
//! table's columns and literals x {select, delete, update}: the rows
//! returned / removed / changed equal the reference filter.

use crate::ops::{Harness, Op, Outcome};
use crate::report::{catch, panic_site, Report, Tier, Violation};
use crate::spec::{ColSpec, Ty};
use crate::val::*;
use rayon::prelude::*;
use serde_json::json;
use std::collections::BTreeSet;

fn leaves() -> Vec<E> {
    vec![E::col("K"), E::col("A"), E::col("S"), E::col("R"), E::null(), E::int(0), E::int(1), E::int(2), E::str(""), E::str("a")]
}

fn conditions() -> Vec<E> {
    let l = leaves();
    let mut out = l.clone();
    for op in ALL_UN {
        for a in &l {
            out.push(E::un(op, a.clone()));
        }
    }
    for op in ALL_BIN {
        for a in &l {
            for b in &l {
                out.push(E::bin(op, a.clone(), b.clone()));
            }
        }
    }
    // keep those that mention a column (the others are covered by C13)
    out.retain(|e| {
        let mut c = BTreeSet::new();
        e.columns(&mut c);
        !c.is_empty()
    });
    // a few depth-2 shapes
    out.push(E::bin(Bin::And, E::bin(Bin::Lt, E::col("K"), E::int(3)), E::un(Un::Not, E::bin(Bin::Eq, E::col("S"), E::null()))));
    out.push(E::bin(Bin::Or, E::bin(Bin::Eq, E::col("A"), E::null()), E::bin(Bin::Ge, E::bin(Bin::Add, E::col("K"), E::col("A")), E::int(3))));
    out.push(E::un(Un::Not, E::bin(Bin::Or, E::col("A"), E::col("S"))));
    out
}

/// Depth-2 conditions in which a logical operator sits *inside* a comparison
/// or a sum (its 0/1 result is then used as a number); run on the contents of
/// at most one row.
fn nested_logic_conditions() -> Vec<E> {
    let l = leaves();
    let mut out = Vec::new();
    for op1 in [Bin::And, Bin::Or] {
        for a in &l {
            for b in &l {
                let inner = E::bin(op1, a.clone(), b.clone());
                let mut c = BTreeSet::new();
                inner.columns(&mut c);
                if c.is_empty() {
                    continue;
                }
                for outer in [E::int(0), E::int(1), E::int(2), E::col("A")] {
                    out.push(E::bin(Bin::Eq, inner.clone(), outer.clone()));
                    out.push(E::bin(Bin::Eq, E::bin(Bin::Add, inner.clone(), outer.clone()), E::int(2)));
                }
            }
        }
    }
    for a in &l {
        let inner = E::un(Un::Not, a.clone());
        let mut c = BTreeSet::new();
        inner.columns(&mut c);
        if !c.is_empty() {
            out.push(E::bin(Bin::Eq, E::bin(Bin::Add, inner.clone(), E::col("A")), E::int(2)));
            out.push(E::bin(Bin::Lt, inner, E::col("A")));
        }
    }
    out
}

fn contents(max_rows: usize) -> Vec<Vec<Vec<Val>>> {
    let avals = [Val::Null, Val::Int(0), Val::Int(1), Val::Int(2)];
    let svals = [Val::Null, Val::s("a")];
    let rvals = [Val::Null, Val::s("a"), Val::s("b")];
    // integer group: every A x S with R null; string group: A in {null, 1} x every S x R
    let mut per_row: Vec<(Val, Val, Val)> = Vec::new();
    for a in &avals {
        for s in &svals {
            per_row.push((a.clone(), s.clone(), Val::Null));
        }
    }
    for a in [Val::Null, Val::Int(1)] {
        for s in &svals {
            for r in &rvals[1..] {
                per_row.push((a.clone(), s.clone(), r.clone()));
            }
        }
    }
    let mut out: Vec<Vec<Vec<Val>>> = vec![vec![]];
    for mask in 1u8..8 {
        let keys: Vec<i32> = (0..3).filter(|b| mask & (1 << b) != 0).map(|b| b + 1).collect();
        if keys.len() > max_rows {
            continue;
        }
        let n = per_row.len().pow(keys.len() as u32);
        for mut i in 0..n {
            let mut rows = Vec::new();
            for k in &keys {
                let (a, s, r) = &per_row[i % per_row.len()];
                i /= per_row.len();
                rows.push(vec![Val::Int(*k), a.clone(), s.clone(), r.clone()]);
            }
            out.push(rows);
        }
    }
    out
}

fn truth(row: &[Val], e: &E) -> Option<bool> {
    let look = |n: &str| -> Val {
        match n {
            "K" => row[0].clone(),
            "A" => row[1].clone(),
            "S" => row[2].clone(),
            "R" => row[3].clone(),
            _ => Val::Null,
        }
    };
    let ts: BTreeSet<bool> = ref_eval(e, &look).iter().map(|v| v.truthy()).collect();
    if ts.len() == 1 {
        ts.into_iter().next()
    } else {
        None
    }
}

fn table_op() -> Op {
    Op::CreateTable { name: "T".into(), cols: vec![ColSpec::new("K", Ty::I16).key(), ColSpec::new("A", Ty::I32).nullable(), ColSpec::new("S", Ty::Str(8)).nullable(), ColSpec::new("R", Ty::Str(8)).nullable()] }
}

/// Builds table T with `content`.  `holes`: the texts of column R are stored
/// through updates after a scratch table's strings were freed, so that they
/// land in re-used pool entries (the same text as in column S then sits in a
/// second entry).
fn build(content: &[Vec<Val>], holes: bool) -> Harness {
    let mut h = Harness::create(0).expect("create");
    assert!(h.apply(&table_op()).is_ok());
    if !holes {
        if !content.is_empty() {
            assert!(h.apply(&Op::Insert { table: "T".into(), rows: content.to_vec() }).is_ok());
        }
        return h;
    }
    let scratch = [
        Op::CreateTable { name: "X".into(), cols: vec![ColSpec::new("k", Ty::I16).key(), ColSpec::new("t", Ty::Str(8)).nullable()] },
        Op::Insert { table: "X".into(), rows: vec![vec![Val::Int(1), Val::s("p")], vec![Val::Int(2), Val::s("q")], vec![Val::Int(3), Val::s("r")]] },
    ];
    for op in &scratch {
        assert!(h.apply(op).is_ok());
    }
    let without_r: Vec<Vec<Val>> = content.iter().map(|r| vec![r[0].clone(), r[1].clone(), r[2].clone(), Val::Null]).collect();
    assert!(h.apply(&Op::Insert { table: "T".into(), rows: without_r }).is_ok());
    assert!(h.apply(&Op::Delete { table: "X".into(), cond: None }).is_ok());
    for r in content {
        if r[3] != Val::Null {
            assert!(h.apply(&Op::Update { table: "T".into(), sets: vec![("R".into(), r[3].clone())], cond: Some(E::bin(Bin::Eq, E::col("K"), E::Lit(r[0].clone()))) }).is_ok());
        }
    }
    assert!(h.apply(&Op::DropTable { name: "X".into() }).is_ok());
    h
}

fn read_rows(h: &mut Harness) -> Result<Vec<Vec<Val>>, String> {
    match catch(|| h.p().select_rows(msi::Select::table("T")).map(|r| r.map(|row| (0..row.len()).map(|i| Val::from_msi(&row[i])).collect::<Vec<Val>>()).collect::<Vec<_>>()).map_err(|e| e.to_string())) {
        Ok(r) => r,
        Err(p) => Err(format!("PANIC {}", p)),
    }
}

/// A table whose name, followed by a period, begins one of its own column
/// names: `Item(Id, Size, "Item.Size")`.  A name always means the column that
/// carries exactly that name.
fn dotted_own_name_group(rep: &mut Report) -> u64 {
    let mk = || -> Harness {
        let mut h = Harness::create(0).expect("create");
        let ops = [
            Op::CreateTable { name: "Item".into(), cols: vec![ColSpec::new("Id", Ty::I16).key(), ColSpec::new("Size", Ty::I16).nullable(), ColSpec::new("Item.Size", Ty::I16).nullable()] },
            Op::Insert { table: "Item".into(), rows: vec![vec![Val::Int(1), Val::Int(10), Val::Int(20)], vec![Val::Int(2), Val::Int(30), Val::Int(40)]] },
            Op::CreateTable { name: "Other".into(), cols: vec![ColSpec::new("Id", Ty::I16).key()] },
            Op::Insert { table: "Other".into(), rows: vec![vec![Val::Int(1)]] },
        ];
        for op in &ops {
            assert!(h.apply(op).is_ok(), "{}", op.show());
        }
        h
    };
    let sel = |h: &mut Harness, q: msi::Select| -> Result<Vec<Vec<Val>>, String> {
        match catch(|| h.p().select_rows(q).map(|r| r.map(|row| (0..row.len()).map(|i| Val::from_msi(&row[i])).collect::<Vec<Val>>()).collect::<Vec<_>>()).map_err(|e| e.to_string())) {
            Ok(r) => r,
            Err(p) => Err(format!("PANIC {}", p)),
        }
    };
    let i = |n: i32| Val::Int(n);
    let mut n = 0u64;
    let mut check = |rep: &mut Report, what: &str, got: Result<Vec<Vec<Val>>, String>, want: Vec<Vec<Val>>| {
        n += 1;
        if got.as_ref().ok() != Some(&want) {
            rep.violation(format!("conditions:dotted-own-name:{}", what.split(' ').next().unwrap_or("")), format!("table Item(Id, Size, \"Item.Size\") with rows (1,10,20), (2,30,40): {} gives {:?}, expected {}", what, got.map(|r| crate::snapshot::show_rows(&Ok(r))), crate::snapshot::show_rows(&Ok(want))), json!({"kind":"c03-dotted","what":what}));
        }
    };
    let mut h = mk();
    check(rep, "select-columns [Item.Size]", sel(&mut h, msi::Select::table("Item").columns(&["Item.Size"])), vec![vec![i(20)], vec![i(40)]]);
    check(rep, "select-columns [Size, Item.Size, Id]", sel(&mut h, msi::Select::table("Item").columns(&["Size", "Item.Size", "Id"])), vec![vec![i(10), i(20), i(1)], vec![i(30), i(40), i(2)]]);
    check(rep, "select-where Item.Size = 20", sel(&mut h, msi::Select::table("Item").with(msi::Expr::col("Item.Size").eq(msi::Expr::integer(20)))), vec![vec![i(1), i(10), i(20)]]);
    check(rep, "select-where Size = 20", sel(&mut h, msi::Select::table("Item").with(msi::Expr::col("Size").eq(msi::Expr::integer(20)))), vec![]);
    check(rep, "select-where Item.Size > Size", sel(&mut h, msi::Select::table("Item").with(msi::Expr::col("Item.Size").gt(msi::Expr::col("Size")))), vec![vec![i(1), i(10), i(20)], vec![i(2), i(30), i(40)]]);
    // in a join the columns are prefixed: Item.Size is the plain Size, Item.Item.Size the dotted one
    let join = msi::Select::table("Item").inner_join(msi::Select::table("Other"), msi::Expr::col("Item.Id").eq(msi::Expr::col("Other.Id")));
    check(rep, "join-columns [Item.Size, Item.Item.Size]", sel(&mut h, join.columns(&["Item.Size", "Item.Item.Size"])), vec![vec![i(10), i(20)]]);
    // update and delete through the dotted name
    let _ = h.apply(&Op::Update { table: "Item".into(), sets: vec![("Item.Size".into(), i(99))], cond: Some(E::bin(Bin::Eq, E::col("Item.Size"), E::int(20))) });
    check(rep, "update-set Item.Size = 99 where Item.Size = 20", sel(&mut h, msi::Select::table("Item")), vec![vec![i(1), i(10), i(99)], vec![i(2), i(30), i(40)]]);
    let _ = h.apply(&Op::Delete { table: "Item".into(), cond: Some(E::bin(Bin::Eq, E::col("Item.Size"), E::int(40))) });
    check(rep, "delete-where Item.Size = 40", sel(&mut h, msi::Select::table("Item")), vec![vec![i(1), i(10), i(99)]]);
    let _ = h.apply(&Op::Reopen);
    check(rep, "after-reopen select-columns [Item.Size]", sel(&mut h, msi::Select::table("Item").columns(&["Item.Size"])), vec![vec![i(99)]]);
    n
}

pub fn run(tier: Tier, rep: &mut Report) -> (u64, u64) {
    let dotted = dotted_own_name_group(rep);
    rep.set("dotted_own_name_queries", dotted);
    let conds = conditions();
    let n_plain = conds.len();
    let conds: Vec<E> = conds.into_iter().chain(nested_logic_conditions()).collect();
    let all = contents(if tier.thorough() { 3 } else { 2 });
    let dml_rows = if tier.thorough() { 3 } else { 1 };
    let jobs: Vec<(&Vec<Vec<Val>>, bool)> = all.iter().flat_map(|c| {
        let has_r = c.iter().any(|r| r[3] != Val::Null);
        let mut v = vec![(c, false)];
        if has_r {
            v.push((c, true));
        }
        v
    }).collect();
    let results: Vec<(u64, u64, Vec<Violation>)> = jobs
        .par_iter()
        .map(|(content, holes)| {
            let content: &Vec<Vec<Val>> = content;
            let mut out: Vec<Violation> = Vec::new();
            let mut n = 0u64;
            let mut determined = 0u64;
            let mut h = build(content, *holes);
            let bytes = {
                let b = h.close_into_inner().expect("close");
                h = Harness::open(b.clone()).expect("reopen");
                b
            };
            let ctx = format!("{}{}", crate::snapshot::show_rows(&Ok(content.clone())), if *holes { " [column R stored in re-used pool entries]" } else { "" });
            let mk = |kind: &str, class: &str, detail: String, e: &E| Violation {
                signature: format!("conditions:{}:{}", kind, class),
                detail,
                replay: json!({"kind":"c03-cond","content":content,"cond":e,"op":kind,"holes":holes}),
            };
            for (ei, e) in conds.iter().enumerate() {
                if ei >= n_plain && content.len() > 1 {
                    break; // the nested-logic family runs on contents of <= 1 row
                }
                let tv: Vec<Option<bool>> = content.iter().map(|r| truth(r, e)).collect();
                if tv.iter().any(|t| t.is_none()) {
                    continue; // condition of unspecified value on some row
                }
                determined += 1;
                let tv: Vec<bool> = tv.into_iter().map(|t| t.unwrap()).collect();
                // select
                n += 1;
                let want: Vec<Vec<Val>> = content.iter().zip(tv.iter()).filter(|(_, t)| **t).map(|(r, _)| r.clone()).collect();
                let got = catch(|| h.p().select_rows(msi::Select::table("T").with(e.to_msi())).map(|r| { let len = r.len(); let v: Vec<Vec<Val>> = r.map(|row| (0..row.len()).map(|i| Val::from_msi(&row[i])).collect()).collect(); (len, v) }).map_err(|x| x.to_string()));
                match got {
                    Err(p) => {
                        out.push(mk("select", &format!("panic:{}", panic_site(&p)), format!("select where {} on {} panicked: {}", e.show(), ctx, p), e));
                        break;
                    }
                    Ok(Err(er)) => out.push(mk("select", "error", format!("select where {} on {} failed: {}", e.show(), ctx, er), e)),
                    Ok(Ok((len, rows))) => {
                        if rows != want {
                            out.push(mk("select", "rows", format!("select where {} on {} returned {} expected {}", e.show(), ctx, crate::snapshot::show_rows(&Ok(rows)), crate::snapshot::show_rows(&Ok(want.clone()))), e));
                        } else if len != want.len() {
                            out.push(mk("select", "reported-length", format!("select where {} on {}: len() = {} but {} rows", e.show(), ctx, len, want.len()), e));
                        }
                    }
                }
                if content.len() > dml_rows {
                    continue;
                }
                // delete
                n += 1;
                let mut hd = Harness::open(bytes.clone()).expect("open");
                match hd.apply(&Op::Delete { table: "T".into(), cond: Some(e.clone()) }) {
                    Outcome::Panic(p) => out.push(mk("delete", &format!("panic:{}", panic_site(&p)), format!("delete where {} on {} panicked: {}", e.show(), ctx, p), e)),
                    Outcome::Err(er) => out.push(mk("delete", "error", format!("delete where {} on {} failed: {}", e.show(), ctx, er), e)),
                    Outcome::Ok => {
                        let want: Vec<Vec<Val>> = content.iter().zip(tv.iter()).filter(|(_, t)| !**t).map(|(r, _)| r.clone()).collect();
                        match read_rows(&mut hd) {
                            Ok(rows) if rows == want => {}
                            other => out.push(mk("delete", "rows", format!("delete where {} on {} left {:?} expected {}", e.show(), ctx, other.map(|r| crate::snapshot::show_rows(&Ok(r))), crate::snapshot::show_rows(&Ok(want))), e)),
                        }
                    }
                }
                // update (a non-key and a second column)
                n += 1;
                let mut hu = Harness::open(bytes.clone()).expect("open");
                match hu.apply(&Op::Update { table: "T".into(), sets: vec![("A".into(), Val::Int(7)), ("S".into(), Val::s("upd"))], cond: Some(e.clone()) }) {
                    Outcome::Panic(p) => out.push(mk("update", &format!("panic:{}", panic_site(&p)), format!("update where {} on {} panicked: {}", e.show(), ctx, p), e)),
                    Outcome::Err(er) => out.push(mk("update", "error", format!("update where {} on {} failed: {}", e.show(), ctx, er), e)),
                    Outcome::Ok => {
                        let want: Vec<Vec<Val>> = content.iter().zip(tv.iter()).map(|(r, t)| if *t { vec![r[0].clone(), Val::Int(7), Val::s("upd"), r[3].clone()] } else { r.clone() }).collect();
                        match read_rows(&mut hu) {
                            Ok(rows) if rows == want => {}
                            other => out.push(mk("update", "rows", format!("update where {} on {} gave {:?} expected {}", e.show(), ctx, other.map(|r| crate::snapshot::show_rows(&Ok(r))), crate::snapshot::show_rows(&Ok(want))), e)),
                        }
                    }
                }
            }
            (n, determined, out)
        })
        .collect();
    let mut n = 0u64;
    let mut det = 0u64;
    for (k, d, vs) in results {
        n += k;
        det += d;
        rep.extend(vs);
    }
    rep.set("conditions_as_programs_conditions", conds.len());
    rep.set("conditions_as_programs_contents", all.len());
    rep.set("conditions_as_programs_calls", n);
    rep.set("conditions_as_programs_determined_pairs", det);
    (n, det)
}

pub fn replay(doc: &serde_json::Value) {
    let content: Vec<Vec<Val>> = serde_json::from_value(doc["content"].clone()).unwrap();
    let e: E = serde_json::from_value(doc["cond"].clone()).unwrap();
    println!("content {} condition {}", crate::snapshot::show_rows(&Ok(content.clone())), e.show());
    for r in &content {
        println!("  row {:?}: reference truth {:?}", r, truth(r, &e));
    }
    let mut h = build(&content, doc["holes"].as_bool().unwrap_or(false));
    let kind = doc["op"].as_str().unwrap_or("select");
    match kind {
        "delete" => println!("{:?}", h.apply(&Op::Delete { table: "T".into(), cond: Some(e.clone()) })),
        "update" => println!("{:?}", h.apply(&Op::Update { table: "T".into(), sets: vec![("A".into(), Val::Int(7)), ("S".into(), Val::s("upd"))], cond: Some(e.clone()) })),
        _ => {
            let r = catch(|| h.p().select_rows(msi::Select::table("T").with(e.to_msi())).map(|r| r.count()).map_err(|x| x.to_string()));
            println!("select -> {:?}", r);
        }
    }
    println!("table now: {:?}", read_rows(&mut h).map(|r| crate::snapshot::show_rows(&Ok(r))));
}

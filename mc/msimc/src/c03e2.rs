//! C03, second part (E2): conditions as programs.  One call's effect is a
//! function of (table content, condition): for every content of <= 3 rows
//! over a small value domain x every expression tree of depth <= 1 over the
//! table's columns and literals x {select, delete, update}: the rows
//! returned / removed / changed equal the reference filter.

use crate::ops::{Harness, Op, Outcome};
use crate::report::{catch, panic_site, Report, Tier, Violation};
use crate::spec::{ColSpec, Ty};
use crate::val::*;
use rayon::prelude::*;
use serde_json::json;
use std::collections::BTreeSet;

fn leaves() -> Vec<E> {
    vec![E::col("K"), E::col("A"), E::col("S"), E::null(), E::int(0), E::int(1), E::int(2), E::str(""), E::str("a")]
}

fn conditions() -> Vec<E> {
    let l = leaves();
    let mut out = l.clone();
    for op in ALL_UN {
        for a in &l {
            out.push(E::un(op, a.clone()));
        }
    }
    for op in ALL_BIN {
        for a in &l {
            for b in &l {
                out.push(E::bin(op, a.clone(), b.clone()));
            }
        }
    }
    // keep those that mention a column (the others are covered by C13)
    out.retain(|e| {
        let mut c = BTreeSet::new();
        e.columns(&mut c);
        !c.is_empty()
    });
    // a few depth-2 shapes
    out.push(E::bin(Bin::And, E::bin(Bin::Lt, E::col("K"), E::int(3)), E::un(Un::Not, E::bin(Bin::Eq, E::col("S"), E::null()))));
    out.push(E::bin(Bin::Or, E::bin(Bin::Eq, E::col("A"), E::null()), E::bin(Bin::Ge, E::bin(Bin::Add, E::col("K"), E::col("A")), E::int(3))));
    out.push(E::un(Un::Not, E::bin(Bin::Or, E::col("A"), E::col("S"))));
    out
}

fn contents(max_rows: usize) -> Vec<Vec<Vec<Val>>> {
    let avals = [Val::Null, Val::Int(0), Val::Int(1), Val::Int(2)];
    let svals = [Val::Null, Val::s("a")];
    let mut per_row: Vec<(Val, Val)> = Vec::new();
    for a in &avals {
        for s in &svals {
            per_row.push((a.clone(), s.clone()));
        }
    }
    let mut out: Vec<Vec<Vec<Val>>> = vec![vec![]];
    for mask in 1u8..8 {
        let keys: Vec<i32> = (0..3).filter(|b| mask & (1 << b) != 0).map(|b| b + 1).collect();
        if keys.len() > max_rows {
            continue;
        }
        let n = per_row.len().pow(keys.len() as u32);
        for mut i in 0..n {
            let mut rows = Vec::new();
            for k in &keys {
                let (a, s) = &per_row[i % per_row.len()];
                i /= per_row.len();
                rows.push(vec![Val::Int(*k), a.clone(), s.clone()]);
            }
            out.push(rows);
        }
    }
    out
}

fn truth(row: &[Val], e: &E) -> Option<bool> {
    let look = |n: &str| -> Val {
        match n {
            "K" => row[0].clone(),
            "A" => row[1].clone(),
            "S" => row[2].clone(),
            _ => Val::Null,
        }
    };
    let ts: BTreeSet<bool> = ref_eval(e, &look).iter().map(|v| v.truthy()).collect();
    if ts.len() == 1 {
        ts.into_iter().next()
    } else {
        None
    }
}

fn table_op() -> Op {
    Op::CreateTable { name: "T".into(), cols: vec![ColSpec::new("K", Ty::I16).key(), ColSpec::new("A", Ty::I32).nullable(), ColSpec::new("S", Ty::Str(8)).nullable()] }
}

fn read_rows(h: &mut Harness) -> Result<Vec<Vec<Val>>, String> {
    match catch(|| h.p().select_rows(msi::Select::table("T")).map(|r| r.map(|row| (0..row.len()).map(|i| Val::from_msi(&row[i])).collect::<Vec<Val>>()).collect::<Vec<_>>()).map_err(|e| e.to_string())) {
        Ok(r) => r,
        Err(p) => Err(format!("PANIC {}", p)),
    }
}

pub fn run(tier: Tier, rep: &mut Report) -> (u64, u64) {
    let conds = conditions();
    let all = contents(if tier.thorough() { 3 } else { 2 });
    let dml_rows = if tier.thorough() { 3 } else { 1 };
    let results: Vec<(u64, u64, Vec<Violation>)> = all
        .par_iter()
        .map(|content| {
            let mut out: Vec<Violation> = Vec::new();
            let mut n = 0u64;
            let mut determined = 0u64;
            let mut h = Harness::create(0).expect("create");
            assert!(h.apply(&table_op()).is_ok());
            if !content.is_empty() {
                assert!(h.apply(&Op::Insert { table: "T".into(), rows: content.clone() }).is_ok());
            }
            let bytes = {
                let b = h.close_into_inner().expect("close");
                h = Harness::open(b.clone()).expect("reopen");
                b
            };
            let ctx = crate::snapshot::show_rows(&Ok(content.clone()));
            let mk = |kind: &str, class: &str, detail: String, e: &E| Violation {
                signature: format!("conditions:{}:{}", kind, class),
                detail,
                replay: json!({"kind":"c03-cond","content":content,"cond":e,"op":kind}),
            };
            for e in &conds {
                let tv: Vec<Option<bool>> = content.iter().map(|r| truth(r, e)).collect();
                if tv.iter().any(|t| t.is_none()) {
                    continue; // condition of unspecified value on some row
                }
                determined += 1;
                let tv: Vec<bool> = tv.into_iter().map(|t| t.unwrap()).collect();
                // select
                n += 1;
                let want: Vec<Vec<Val>> = content.iter().zip(tv.iter()).filter(|(_, t)| **t).map(|(r, _)| r.clone()).collect();
                let got = catch(|| h.p().select_rows(msi::Select::table("T").with(e.to_msi())).map(|r| { let len = r.len(); let v: Vec<Vec<Val>> = r.map(|row| (0..row.len()).map(|i| Val::from_msi(&row[i])).collect()).collect(); (len, v) }).map_err(|x| x.to_string()));
                match got {
                    Err(p) => {
                        out.push(mk("select", &format!("panic:{}", panic_site(&p)), format!("select where {} on {} panicked: {}", e.show(), ctx, p), e));
                        break;
                    }
                    Ok(Err(er)) => out.push(mk("select", "error", format!("select where {} on {} failed: {}", e.show(), ctx, er), e)),
                    Ok(Ok((len, rows))) => {
                        if rows != want {
                            out.push(mk("select", "rows", format!("select where {} on {} returned {} expected {}", e.show(), ctx, crate::snapshot::show_rows(&Ok(rows)), crate::snapshot::show_rows(&Ok(want.clone()))), e));
                        } else if len != want.len() {
                            out.push(mk("select", "reported-length", format!("select where {} on {}: len() = {} but {} rows", e.show(), ctx, len, want.len()), e));
                        }
                    }
                }
                if content.len() > dml_rows {
                    continue;
                }
                // delete
                n += 1;
                let mut hd = Harness::open(bytes.clone()).expect("open");
                match hd.apply(&Op::Delete { table: "T".into(), cond: Some(e.clone()) }) {
                    Outcome::Panic(p) => out.push(mk("delete", &format!("panic:{}", panic_site(&p)), format!("delete where {} on {} panicked: {}", e.show(), ctx, p), e)),
                    Outcome::Err(er) => out.push(mk("delete", "error", format!("delete where {} on {} failed: {}", e.show(), ctx, er), e)),
                    Outcome::Ok => {
                        let want: Vec<Vec<Val>> = content.iter().zip(tv.iter()).filter(|(_, t)| !**t).map(|(r, _)| r.clone()).collect();
                        match read_rows(&mut hd) {
                            Ok(rows) if rows == want => {}
                            other => out.push(mk("delete", "rows", format!("delete where {} on {} left {:?} expected {}", e.show(), ctx, other.map(|r| crate::snapshot::show_rows(&Ok(r))), crate::snapshot::show_rows(&Ok(want))), e)),
                        }
                    }
                }
                // update (a non-key and a second column)
                n += 1;
                let mut hu = Harness::open(bytes.clone()).expect("open");
                match hu.apply(&Op::Update { table: "T".into(), sets: vec![("A".into(), Val::Int(7)), ("S".into(), Val::s("upd"))], cond: Some(e.clone()) }) {
                    Outcome::Panic(p) => out.push(mk("update", &format!("panic:{}", panic_site(&p)), format!("update where {} on {} panicked: {}", e.show(), ctx, p), e)),
                    Outcome::Err(er) => out.push(mk("update", "error", format!("update where {} on {} failed: {}", e.show(), ctx, er), e)),
                    Outcome::Ok => {
                        let want: Vec<Vec<Val>> = content.iter().zip(tv.iter()).map(|(r, t)| if *t { vec![r[0].clone(), Val::Int(7), Val::s("upd")] } else { r.clone() }).collect();
                        match read_rows(&mut hu) {
                            Ok(rows) if rows == want => {}
                            other => out.push(mk("update", "rows", format!("update where {} on {} gave {:?} expected {}", e.show(), ctx, other.map(|r| crate::snapshot::show_rows(&Ok(r))), crate::snapshot::show_rows(&Ok(want))), e)),
                        }
                    }
                }
            }
            (n, determined, out)
        })
        .collect();
    let mut n = 0u64;
    let mut det = 0u64;
    for (k, d, vs) in results {
        n += k;
        det += d;
        rep.extend(vs);
    }
    rep.set("conditions_as_programs_conditions", conds.len());
    rep.set("conditions_as_programs_contents", all.len());
    rep.set("conditions_as_programs_calls", n);
    rep.set("conditions_as_programs_determined_pairs", det);
    (n, det)
}

pub fn replay(doc: &serde_json::Value) {
    let content: Vec<Vec<Val>> = serde_json::from_value(doc["content"].clone()).unwrap();
    let e: E = serde_json::from_value(doc["cond"].clone()).unwrap();
    println!("content {} condition {}", crate::snapshot::show_rows(&Ok(content.clone())), e.show());
    for r in &content {
        println!("  row {:?}: reference truth {:?}", r, truth(r, &e));
    }
    let mut h = Harness::create(0).unwrap();
    h.apply(&table_op());
    if !content.is_empty() {
        h.apply(&Op::Insert { table: "T".into(), rows: content.clone() });
    }
    let kind = doc["op"].as_str().unwrap_or("select");
    match kind {
        "delete" => println!("{:?}", h.apply(&Op::Delete { table: "T".into(), cond: Some(e.clone()) })),
        "update" => println!("{:?}", h.apply(&Op::Update { table: "T".into(), sets: vec![("A".into(), Val::Int(7)), ("S".into(), Val::s("upd"))], cond: Some(e.clone()) })),
        _ => {
            let r = catch(|| h.p().select_rows(msi::Select::table("T").with(e.to_msi())).map(|r| r.count()).map_err(|x| x.to_string()));
            println!("select -> {:?}", r);
        }
    }
    println!("table now: {:?}", read_rows(&mut h).map(|r| crate::snapshot::show_rows(&Ok(r))));
}

//! C06 — a created table reopens with the schema it was created with.
//! E2: factored product over the two stored records of a column (type word in
//! _Columns, one _Validation row) and over column lists / names.

use crate::dec;
use crate::ops::{Harness, Op, Outcome};
use crate::report::{Report, Tier};
use crate::snapshot::snapshot;
use crate::spec::{ColSpec, Ty, ALL_CATEGORIES};
use rayon::prelude::*;
use serde_json::json;

#[derive(Clone)]
struct Case {
    group: &'static str,
    /// coarse class for signatures
    class: String,
    table: String,
    cols: Vec<ColSpec>,
}

type V = (String, String);

fn run_case(c: &Case, fresh: &crate::snapshot::Snapshot) -> (bool, Vec<V>) {
    let mut out = Vec::new();
    let mut h = match Harness::create(0) {
        Ok(h) => h,
        Err(e) => return (false, vec![("machinery".into(), e)]),
    };
    let o = h.apply(&Op::CreateTable { name: c.table.clone(), cols: c.cols.clone() });
    let want: Vec<ColSpec> = c.cols.iter().map(|x| x.without_fk()).collect();
    match o {
        Outcome::Panic(p) => {
            out.push((format!("{}:panic:{}", c.group, crate::report::panic_site(&p)), format!("create_table({}) panicked: {}", c.class, p)));
            return (false, out);
        }
        Outcome::Err(_) => {
            // refused: nothing may have changed
            match snapshot(h.p()) {
                Err(p) => out.push((format!("{}:panic:snapshot", c.group), p)),
                Ok(s) => {
                    if let Some(d) = fresh.diff(&s) {
                        out.push((format!("{}:refused-but-changed:{}", c.group, c.class), format!("create_table refused {:?} but the package changed: {}", c.class, d)));
                    }
                }
            }
            return (false, out);
        }
        Outcome::Ok => {}
    }
    let observe = |h: &mut Harness| -> Result<Vec<ColSpec>, String> {
        let s = snapshot(h.p())?;
        match s.table(&c.table) {
            Some(t) => Ok(t.cols.clone()),
            None => Err("table not listed".into()),
        }
    };
    match observe(&mut h) {
        Err(e) => out.push((format!("{}:not-observable:{}", c.group, c.class), e)),
        Ok(got) => {
            if let Some(d) = first_diff(&want, &got) {
                out.push((format!("{}:altered-immediately:{}", c.group, d.2), format!("accepted {} but it is reported as {}", d.0, d.1)));
            }
        }
    }
    let bytes = match h.close_into_inner() {
        Ok(b) => b,
        Err(e) => {
            out.push((format!("{}:close-failed", c.group), e));
            return (true, out);
        }
    };
    // the foreign key has no getter: read it from the saved _Validation rows
    if c.cols.iter().any(|x| x.fk.is_some()) {
        if let Ok(d) = dec::decode(&bytes) {
            if let Some(v) = d.tables.get("_Validation") {
                for col in c.cols.iter().filter(|x| x.fk.is_some()) {
                    let row = v.rows.iter().find(|r| d.cell_text(&r[0]).as_deref() == Some(&c.table) && d.cell_text(&r[1]).as_deref() == Some(&col.name));
                    let got = row.map(|r| (d.cell_text(&r[5]), match r[6] { dec::Cell::Int(n) => Some(n), _ => None }));
                    let fk = col.fk.clone().unwrap();
                    if got != Some((Some(fk.0.clone()), Some(fk.1))) {
                        out.push((format!("{}:foreign-key-altered:{}", c.group, c.class), format!("foreign key {:?} of column {} is stored as {:?}", fk, col.name, got)));
                    }
                }
            }
        }
    }
    match Harness::open(bytes) {
        Err(e) => out.push((format!("{}:reopen-fails:{}", c.group, c.class), format!("accepted {:?} but the saved package does not reopen: {}", c.class, e))),
        Ok(mut h2) => match observe(&mut h2) {
            Err(e) => out.push((format!("{}:not-observable-after-reopen:{}", c.group, c.class), e)),
            Ok(got) => {
                if let Some(d) = first_diff(&want, &got) {
                    out.push((format!("{}:altered-after-reopen:{}", c.group, d.2), format!("accepted {} but after reopen it is {}", d.0, d.1)));
                }
            }
        },
    }
    (true, out)
}

fn first_diff(want: &[ColSpec], got: &[ColSpec]) -> Option<(String, String, String)> {
    if want.len() != got.len() {
        return Some((format!("{} columns", want.len()), format!("{} columns", got.len()), "column-count".into()));
    }
    for (w, g) in want.iter().zip(got.iter()) {
        if w != g {
            let attr = if w.name != g.name {
                "name"
            } else if w.ty != g.ty {
                "type"
            } else if w.nullable != g.nullable {
                "nullable"
            } else if w.key != g.key {
                "key"
            } else if w.localizable != g.localizable {
                "localizable"
            } else if w.range != g.range {
                "range"
            } else if w.category != g.category {
                "category"
            } else {
                "enum-values"
            };
            let extra = match (attr, &w.ty) {
                ("type", Ty::Str(n)) | ("nullable", Ty::Str(n)) | ("key", Ty::Str(n)) | ("localizable", Ty::Str(n)) => format!(":width-{}", width_class(*n)),
                ("enum-values", _) => format!(":{}", if w.enums.iter().any(|e| e.contains(';')) { "semicolon" } else if w.enums.iter().any(|e| e.is_empty()) { "empty-value" } else if w.enums.iter().any(|e| e.trim() != e) { "surrounding-whitespace" } else { "other" }),
                _ => String::new(),
            };
            return Some((format!("{:?}", w), format!("{:?}", g), format!("{}{}", attr, extra)));
        }
    }
    None
}

fn width_class(w: usize) -> &'static str {
    match w {
        0 => "0",
        1..=255 => "1..255",
        256..=0x7fff => "256..32767",
        _ => ">=32768",
    }
}

fn g1(tier: Tier) -> Vec<Case> {
    // all widths in both tiers (a create + reopen cycle costs ~0.3 ms)
    let _ = tier;
    let widths: Vec<usize> = (0..=65535usize).collect();
    let mut out = Vec::new();
    for w in widths {
        let mut cols = vec![ColSpec::new("K0", Ty::I16).key()];
        let mut i = 0;
        for cat in [None, Some("Text"), Some("Binary")] {
            for flags in 0..8u8 {
                i += 1;
                let mut c = ColSpec::new(&format!("C{}", i), Ty::Str(w));
                if flags & 1 != 0 {
                    c = c.nullable();
                }
                if flags & 2 != 0 {
                    c = c.key();
                }
                if flags & 4 != 0 {
                    c = c.localizable();
                }
                if let Some(cat) = cat {
                    c = c.category(cat);
                }
                cols.push(c);
            }
        }
        out.push(Case { group: "type-word", class: format!("string-width-{}", width_class(w)), table: "W".into(), cols });
    }
    // integer types x flags x categories
    for ty in [Ty::I16, Ty::I32] {
        let mut cols = vec![ColSpec::new("K0", Ty::I16).key()];
        let mut i = 0;
        for cat in [None, Some("Text"), Some("Binary")] {
            for flags in 0..8u8 {
                i += 1;
                let mut c = ColSpec::new(&format!("C{}", i), ty.clone());
                if flags & 1 != 0 {
                    c = c.nullable();
                }
                if flags & 2 != 0 {
                    c = c.key();
                }
                if flags & 4 != 0 {
                    c = c.localizable();
                }
                if let Some(cat) = cat {
                    c = c.category(cat);
                }
                cols.push(c);
            }
        }
        out.push(Case { group: "type-word", class: format!("{:?}", ty), table: "W".into(), cols });
    }
    out
}

fn g2() -> Vec<Case> {
    let ranges: Vec<(&str, Option<(i32, i32)>)> = vec![
        ("none", None),
        ("0..100", Some((0, 100))),
        ("5..5", Some((5, 5))),
        ("7..3", Some((7, 3))),
        ("full", Some((-0x7fff_ffff, 0x7fff_ffff))),
        ("min..0", Some((i32::MIN, 0))),
        ("0..max", Some((0, i32::MAX))),
    ];
    let long: Vec<String> = (0..64).map(|n| format!("v{:03}", n)).collect();
    let enums: Vec<(&str, Vec<String>)> = vec![
        ("none", vec![]),
        ("one", vec!["a".into()]),
        ("two", vec!["a".into(), "b".into()]),
        ("semicolon", vec!["a;b".into()]),
        ("empty-only", vec!["".into()]),
        ("empty-and-x", vec!["".into(), "x".into()]),
        ("x-and-empty", vec!["x".into(), "".into()]),
        ("319-chars", long),
        ("whitespace", vec!["on".into(), " on".into(), "off ".into(), " ".into(), "a b".into()]),
        ("case-and-dup-like", vec!["A".into(), "a".into(), "A ".into()]),
        ("255-chars", vec!["z".repeat(255)]),
        ("256-chars", vec!["z".repeat(256)]),
    ];
    let fks: Vec<(&str, Option<(&str, i32)>)> = vec![
        ("none", None),
        ("T.1", Some(("T", 1))),
        ("T.32", Some(("T", 32))),
        ("T.0", Some(("T", 0))),
        ("T.33", Some(("T", 33))),
        ("bad-name", Some(("bad name", 1))),
    ];
    let mut out = Vec::new();
    for (rn, r) in &ranges {
        for (en, e) in &enums {
            for (fnm, f) in &fks {
                let mut all: Vec<ColSpec> = Vec::new();
                let mut i = 0;
                for cat in std::iter::once(None).chain(ALL_CATEGORIES.iter().map(|c| Some(*c))) {
                    for nullable in [false, true] {
                        for ty in [Ty::I16, Ty::I32, Ty::Str(8)] {
                            i += 1;
                            let mut c = ColSpec::new(&format!("C{}", i), ty.clone());
                            if nullable {
                                c = c.nullable();
                            }
                            if let Some(cat) = cat {
                                c = c.category(cat);
                            }
                            c.range = *r;
                            c.enums = e.clone();
                            c.fk = f.map(|(t, k)| (t.to_string(), k));
                            all.push(c);
                        }
                    }
                }
                for chunk in all.chunks(31) {
                    let mut cols = vec![ColSpec::new("K0", Ty::I16).key()];
                    cols.extend(chunk.iter().cloned());
                    out.push(Case { group: "validation-row", class: format!("range-{}/enum-{}/fk-{}", rn, en, fnm), table: "V".into(), cols });
                }
            }
        }
    }
    out
}

fn g3() -> Vec<Case> {
    let mut out = Vec::new();
    // every column count 1..=33, key in every position
    for n in 1..=33usize {
        for keypos in [0usize, n / 2, n - 1] {
            let cols: Vec<ColSpec> = (0..n)
                .map(|i| {
                    let c = ColSpec::new(&format!("C{}", i), if i % 3 == 0 { Ty::I16 } else if i % 3 == 1 { Ty::I32 } else { Ty::Str(i) });
                    if i == keypos {
                        c.key()
                    } else {
                        c.nullable()
                    }
                })
                .collect();
            out.push(Case { group: "lists", class: format!("{}-columns", if n <= 32 { "1..32" } else { "33" }), table: "L".into(), cols });
        }
    }
    // no key, duplicate names
    out.push(Case { group: "lists", class: "no-key".into(), table: "L".into(), cols: vec![ColSpec::new("A", Ty::I16), ColSpec::new("B", Ty::I16)] });
    out.push(Case { group: "lists", class: "duplicate-column".into(), table: "L".into(), cols: vec![ColSpec::new("A", Ty::I16).key(), ColSpec::new("A", Ty::I32)] });
    out.push(Case { group: "lists", class: "all-keys".into(), table: "L".into(), cols: (0..32).map(|i| ColSpec::new(&format!("K{}", i), Ty::I16).key()).collect() });
    // names of every length 1..=66
    for len in 1..=66usize {
        for first in ["a", "_", "Z"] {
            let name: String = format!("{}{}", first, "b".repeat(len - 1));
            let cls = match len {
                1..=32 => "1..32",
                33..=64 => "33..64",
                _ => "65..66",
            };
            out.push(Case { group: "names", class: format!("column-name-{}", cls), table: "N".into(), cols: vec![ColSpec::new("K", Ty::I16).key(), ColSpec::new(&name, Ty::Str(5)).nullable()] });
            let tcls = match len {
                1..=32 => "1..32",
                33..=60 => "33..60",
                _ => "61..66",
            };
            out.push(Case { group: "names", class: format!("table-name-{}", tcls), table: name.clone(), cols: vec![ColSpec::new("K", Ty::I16).key()] });
        }
    }
    for (cls, name) in [("dotted", "a.b"), ("digit-first", "9a"), ("space", "a b"), ("non-ascii", "\u{e9}a"), ("empty", "")] {
        out.push(Case { group: "names", class: format!("column-name-{}", cls), table: "N".into(), cols: vec![ColSpec::new("K", Ty::I16).key(), ColSpec::new(name, Ty::I16)] });
        out.push(Case { group: "names", class: format!("table-name-{}", cls), table: name.to_string(), cols: vec![ColSpec::new("K", Ty::I16).key()] });
    }
    out
}

/// G4: the schema must also survive when the table is created in a package
/// with a history: after other tables were created and dropped, across
/// reopens, re-using freed string-pool entries.
fn g4_histories(rep: &mut Report) -> u64 {
    use crate::e1::{linear_history_checks, Config, Monitors};
    let target = Op::CreateTable {
        name: "T".into(),
        cols: vec![
            ColSpec::new("K", Ty::I16).key(),
            ColSpec::new("S", Ty::Str(20)).nullable().localizable().category("Identifier").enums(&["a", "b"]),
            ColSpec::new("N", Ty::I32).nullable().range(-5, 5),
        ],
    };
    let other = Op::CreateTable { name: "U".into(), cols: vec![ColSpec::new("K", Ty::I16).key(), ColSpec::new("S", Ty::Str(20)).nullable().category("Identifier").enums(&["a", "b"])] };
    let pre: Vec<Op> = vec![target.clone(), other.clone(), Op::DropTable { name: "T".into() }, Op::DropTable { name: "U".into() }, Op::Reopen, Op::DropReopen, Op::Flush, Op::Insert { table: "U".into(), rows: vec![vec![crate::val::Val::Int(1), crate::val::Val::s("a")]] }];
    // every history of length <= 4 over `pre`, followed by the target create
    let mut hists: Vec<Vec<usize>> = vec![vec![]];
    let mut frontier: Vec<Vec<usize>> = vec![vec![]];
    for _ in 0..4 {
        let mut next = Vec::new();
        for h in &frontier {
            for i in 0..pre.len() {
                let mut n = h.clone();
                n.push(i);
                next.push(n);
            }
        }
        hists.extend(next.iter().cloned());
        frontier = next;
    }
    let cfg = Config {
        property: "C06",
        seed: None,
        ptype: 0,
        setup: vec![],
        alphabet: vec![],
        probes: vec![],
        stream_names: vec![],
        max_depth: 0,
        wall_cap: std::time::Duration::from_secs(60),
        monitors: Monitors { model: true, roundtrip: true, ..Monitors::default() },
        merge_audits: 0,
        nodedup_depth: 0,
    };
    let fr = crate::e1::fresh(0);
    let results: Vec<Vec<crate::report::Violation>> = hists
        .par_iter()
        .map(|h| {
            let mut ops: Vec<Op> = h.iter().map(|&i| pre[i].clone()).collect();
            // make sure T does not exist when the target create runs
            ops.push(Op::DropTable { name: "T".into() });
            ops.push(target.clone());
            // the helper refuses histories whose steps disagree with the model;
            // a drop of a missing table is an expected error for both
            linear_history_checks(&cfg, &fr, &ops)
        })
        .collect();
    let n = hists.len() as u64;
    for vs in results {
        for mut v in vs {
            v.signature = format!("history:{}", v.signature);
            rep.violations.push(v);
        }
    }
    n
}

/// G5: two tables whose (table, column) names run into each other when they
/// are written next to each other with any separator; each must reopen with
/// its own schema.
fn g5_name_pairs(rep: &mut Report) -> u64 {
    use crate::e1::{linear_history_checks, Config, Monitors};
    let cfg = Config {
        property: "C06",
        seed: None,
        ptype: 0,
        setup: vec![],
        alphabet: vec![],
        probes: vec![],
        stream_names: vec![],
        max_depth: 0,
        wall_cap: std::time::Duration::from_secs(60),
        monitors: Monitors { model: true, roundtrip: true, ..Monitors::default() },
        merge_audits: 0,
        nodedup_depth: 0,
    };
    let mk = |t: &str, c: &str, variant: usize| Op::CreateTable {
        name: t.to_string(),
        cols: vec![
            ColSpec::new("K", Ty::I16).key(),
            if variant == 0 { ColSpec::new(c, Ty::Str(20)).nullable().category("Identifier").enums(&["a", "b"]) } else { ColSpec::new(c, Ty::I32).nullable().range(-5, 5) },
        ],
    };
    let mut pairs: Vec<(String, String, String, String)> = Vec::new();
    for sep in [".", "_", "", "__", ".."] {
        pairs.push((format!("Aa{}Bb", sep), "Cc".into(), "Aa".into(), format!("Bb{}Cc", sep)));
        pairs.push((format!("Aa{}Bb", sep), format!("Cc{}Dd", sep), format!("Aa{}Bb{}Cc", sep, sep), "Dd".into()));
    }
    pairs.push(("Aa".into(), "Bb".into(), "Bb".into(), "Aa".into()));
    pairs.push(("Aa".into(), "Bb".into(), "Aa_".into(), "Bb".into()));
    pairs.push(("Tab".into(), "Col".into(), "TAB".into(), "COL".into()));
    pairs.push(("Tab".into(), "Col".into(), "Tab1".into(), "Col".into()));
    let fr = crate::e1::fresh(0);
    let mut jobs: Vec<Vec<Op>> = Vec::new();
    for (t1, c1, t2, c2) in &pairs {
        for order in 0..2 {
            let a = mk(t1, c1, 0);
            let b = mk(t2, c2, 1);
            let mut ops = if order == 0 { vec![a, b] } else { vec![b, a] };
            jobs.push(ops.clone());
            ops.push(Op::Reopen);
            ops.push(Op::DropTable { name: t1.clone() });
            jobs.push(ops);
        }
    }
    let results: Vec<Vec<crate::report::Violation>> = jobs.par_iter().map(|ops| linear_history_checks(&cfg, &fr, ops)).collect();
    for vs in results {
        for mut v in vs {
            v.signature = format!("name-pair:{}", v.signature);
            rep.violations.push(v);
        }
    }
    jobs.len() as u64
}

/// G6: a catalog string of the new table (its name, a column's name) is
/// already referenced by row data close to the per-entry reference limit, so
/// that the references made while the table is created spill into a second
/// pool entry; and the same under a database code page in which the attribute
/// text is or is not representable.
fn g6_saturated_and_encoded(rep: &mut Report) -> u64 {
    use crate::val::Val;
    let cols = vec![
        ColSpec::new("K", Ty::I16).key(),
        ColSpec::new("Cc", Ty::Str(8)).nullable().category("Identifier").enums(&["a", "b"]),
        ColSpec::new("N", Ty::I32).nullable().range(-5, 5),
    ];
    let mut jobs: Vec<(String, Vec<Op>, Vec<ColSpec>)> = Vec::new();
    for uses in [65530usize, 65532, 65533, 65534, 65535] {
        for text in ["Cc", "Tt", "Identifier", "a;b"] {
            let rows: Vec<Vec<Val>> = (1..=uses as i32).map(|k| vec![Val::Int(k), Val::s(text)]).collect();
            let setup = vec![Op::CreateTable { name: "D".into(), cols: vec![ColSpec::new("K", Ty::I32).key(), ColSpec::new("V", Ty::Str(0)).nullable()] }, Op::Insert { table: "D".into(), rows }];
            jobs.push((format!("saturated:{}-uses-of-{:?}", uses, text), setup, cols.clone()));
        }
    }
    // attribute text in a database code page that can represent it
    let e9 = vec![ColSpec::new("K", Ty::I16).key(), ColSpec::new("Cc", Ty::Str(8)).nullable().enums(&["\u{e9}t\u{e9}", "b"])];
    jobs.push(("code-page-1252:representable-enum".into(), vec![Op::SetDbCodepage(1252)], e9.clone()));
    jobs.push(("code-page-932:representable-enum".into(), vec![Op::SetDbCodepage(932)], vec![ColSpec::new("K", Ty::I16).key(), ColSpec::new("Cc", Ty::Str(8)).nullable().enums(&["\u{3042}", "b"])]));
    // ... and in one that cannot: refused or preserved, never silently altered
    jobs.push(("code-page-1252:unrepresentable-enum".into(), vec![Op::SetDbCodepage(1252)], vec![ColSpec::new("K", Ty::I16).key(), ColSpec::new("Cc", Ty::Str(8)).nullable().enums(&["\u{3b1}", "\u{3b2}"])]));
    jobs.push(("code-page-932:unrepresentable-enum".into(), vec![Op::SetDbCodepage(932)], vec![ColSpec::new("K", Ty::I16).key(), ColSpec::new("Cc", Ty::Str(8)).nullable().enums(&["\u{e9}", "b"])]));
    let results: Vec<Vec<V>> = jobs
        .par_iter()
        .map(|(label, setup, cols)| {
            let mut out: Vec<V> = Vec::new();
            let group = label.split(':').next().unwrap_or("g6").to_string();
            let mut h = Harness::create(0).expect("create");
            for op in setup {
                if !h.apply(op).is_ok() {
                    return vec![("machinery:g6-setup".into(), format!("{}: {}", label, op.show()))];
                }
            }
            let observe = |h: &mut Harness| -> Result<Vec<ColSpec>, String> {
                crate::report::catch(|| {
                    let p = h.p();
                    p.get_table("Tt").map(|t| t.columns().iter().map(ColSpec::observed).collect::<Vec<ColSpec>>())
                })
                .and_then(|o| o.ok_or_else(|| "table not listed".to_string()))
            };
            match h.apply(&Op::CreateTable { name: "Tt".into(), cols: cols.clone() }) {
                Outcome::Panic(p) => return vec![(format!("g6:{}:panic:{}", group, crate::report::panic_site(&p)), format!("{}: create_table panicked: {}", label, p))],
                Outcome::Err(_) => return out, // refusing is allowed (atomicity is C04's)
                Outcome::Ok => {}
            }
            match observe(&mut h) {
                Err(e) => out.push((format!("g6:{}:not-observable", group), format!("{}: {}", label, e))),
                Ok(got) => {
                    if let Some(d) = first_diff(cols, &got) {
                        out.push((format!("g6:{}:altered-immediately:{}", label.split('-').next().unwrap_or(""), d.2), format!("{}: accepted {} but it is reported as {}", label, d.0, d.1)));
                    }
                }
            }
            match h.close_into_inner().and_then(Harness::open) {
                Err(e) => out.push((format!("g6:{}:reopen-fails", label), format!("{}: {}", label, e))),
                Ok(mut h2) => match observe(&mut h2) {
                    Err(e) => out.push((format!("g6:{}:not-observable-after-reopen", label), e)),
                    Ok(got) => {
                        if let Some(d) = first_diff(cols, &got) {
                            let class: String = if label.starts_with("saturated") { "saturated".into() } else { label.clone() };
                            out.push((format!("g6:{}:altered-after-reopen:{}", class, d.2), format!("{}: accepted {} but after reopen it is {}", label, d.0, d.1)));
                        }
                    }
                },
            }
            out
        })
        .collect();
    for vs in results {
        for (sig, d) in vs {
            rep.violation(sig, d.clone(), json!({"kind":"c06-g6","detail":d}));
        }
    }
    jobs.len() as u64
}

pub fn run(tier: Tier) -> i32 {
    let mut rep = Report::new("C06", tier, "model_checking");
    rep.assume("a column's stored form is two independent records (type word in _Columns; one _Validation row), so the product is factored: G1 = every string width x 8 flag combinations x 3 categories, G2 = ranges x categories x enum lists x foreign keys x nullable x type, G3 = column lists and names");
    rep.assume("the foreign key has no public getter; it is read back from the saved _Validation rows by the independent decoder");
    let fresh = crate::e1::fresh(0).snapshot;
    let mut cases = g1(tier);
    let n1 = cases.len();
    cases.extend(g2());
    let n2 = cases.len() - n1;
    cases.extend(g3());
    let n3 = cases.len() - n1 - n2;
    let results: Vec<(bool, Vec<V>)> = cases.par_iter().map(|c| run_case(c, &fresh)).collect();
    let mut accepted = 0u64;
    let mut columns = 0u64;
    for (c, (ok, vs)) in cases.iter().zip(results.into_iter()) {
        columns += c.cols.len() as u64;
        if ok {
            accepted += 1;
        }
        for (sig, d) in vs {
            rep.violation(sig, d, json!({"kind":"c06-case","table":c.table,"cols":c.cols}));
        }
    }
    rep.set("states", cases.len());
    rep.set("transitions", cases.len() * 2);
    rep.set("traces_validated_against_impl", cases.len());
    rep.set("evaluations", cases.len());
    rep.set("distinct_nontrivial", accepted);
    rep.set("tables_created_and_reopened", accepted);
    rep.set("tables_refused", cases.len() as u64 - accepted);
    rep.set("column_definitions", columns);
    rep.set("g1_type_word_tables", n1);
    rep.set("g2_validation_row_tables", n2);
    rep.set("g3_list_and_name_tables", n3);
    let n4 = g4_histories(&mut rep);
    rep.set("g4_create_after_history", n4);
    let n5 = g5_name_pairs(&mut rep);
    rep.set("g5_colliding_name_pairs", n5);
    let n6 = g6_saturated_and_encoded(&mut rep);
    rep.set("g6_saturated_strings_and_code_pages", n6);
    rep.set("exhaustive", true);
    rep.set("rule", "G6: create_table when its name / a column name / a category / an enum list is already referenced 65530..65535 times by row data (the references made by the call spill into a second pool entry), and with enum values under database code pages 1252 and 932 that can / cannot represent them. G5: pairs of tables whose table and column names run into each other under concatenation with the separators '.', '_', '', '__', '..' (and swapped / case-only / prefix pairs), created in both orders, saved three ways, reopened, one of them dropped. G4: the same create_table after every history of <= 4 steps over {create T, create U, drop T, drop U, reopen, drop+reopen, flush, insert}, then saved three ways and reopened. G1-G3: each case = one create_table on a fresh package; accepted: all attribute getters equal the request immediately and after save + reopen (foreign key via the decoder); refused: package identical to a fresh one. G1: every string width in the tier's set (thorough: all 0..=65535) x {nullable,key,localizable} x {none,Text,Binary}, both integer types; G2: 7 ranges x 27 categories x 10 enum lists x 6 foreign keys x nullable x 3 types; G3: every column count 1..33 with the key first/middle/last, no key, duplicate names, column and table names of every length 1..66. distinct_nontrivial = tables accepted and round-tripped");
    rep.sample(json!({"group": cases[0].group, "class": cases[0].class, "columns": cases[0].cols.len()}));
    rep.sample(json!({"group": cases[n1 + 5].group, "class": cases[n1 + 5].class, "first_column": cases[n1 + 5].cols[1]}));
    rep.finish()
}

pub fn replay(doc: &serde_json::Value) {
    let cols: Vec<ColSpec> = serde_json::from_value(doc["cols"].clone()).unwrap();
    let table = doc["table"].as_str().unwrap().to_string();
    let fresh = crate::e1::fresh(0).snapshot;
    let (ok, vs) = run_case(&Case { group: "replay", class: "replay".into(), table, cols }, &fresh);
    println!("accepted: {}", ok);
    for (s, d) in vs {
        println!("{}: {}", s, d);
    }
}

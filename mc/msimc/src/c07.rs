//! C07 — rows are accepted exactly when every value is valid for its column.
//! E2: (a) gate equivalence insert/update/is_valid_value/reference over a
//! product of column definitions x values; arities; (b) category grammars over
//! all short strings of an adversarial alphabet; (c) library-built values.

use crate::ops::{Harness, Op, Outcome};
use crate::report::{catch, panic_site, Report, Tier};
use crate::spec::{category_accepts, ColSpec, Tri, Ty, ALL_CATEGORIES};
use crate::val::Val;
use rayon::prelude::*;
use serde_json::json;
use std::collections::BTreeSet;
use std::str::FromStr;

fn column_defs() -> Vec<ColSpec> {
    let mut v = Vec::new();
    for nullable in [false, true] {
        let n = |c: ColSpec| if nullable { c.nullable() } else { c };
        for ty in [Ty::I16, Ty::I32] {
            v.push(n(ColSpec::new("C", ty.clone())));
            v.push(n(ColSpec::new("C", ty.clone()).range(0, 100)));
            v.push(n(ColSpec::new("C", ty.clone()).range(5, 5)));
            v.push(n(ColSpec::new("C", ty.clone()).range(7, 3)));
            v.push(n(ColSpec::new("C", ty.clone()).range(-32767, 32767)));
            v.push(n(ColSpec::new("C", ty.clone()).range(-0x7fff_ffff, 0x7fff_ffff)));
        }
        for w in [0usize, 1, 3] {
            v.push(n(ColSpec::new("C", Ty::Str(w))));
            v.push(n(ColSpec::new("C", Ty::Str(w)).enums(&["a", "bb", "\u{e9}"])));
            v.push(n(ColSpec::new("C", Ty::Str(w)).localizable()));
            v.push(n(ColSpec::new("C", Ty::Str(w)).enums(&["ON ", " a", "b c", "A"])));
        }
        for cat in ALL_CATEGORIES {
            v.push(n(ColSpec::new("C", Ty::Str(0)).category(cat)));
            v.push(n(ColSpec::new("C", Ty::Str(4)).category(cat)));
        }
        // attributes that do not belong to the type
        v.push(n(ColSpec::new("C", Ty::Str(8)).range(0, 9)));
        v.push(n(ColSpec::new("C", Ty::Str(0)).range(-5, 100)));
        v.push(n(ColSpec::new("C", Ty::I16).enums(&["1", "2", "a"])));
        v.push(n(ColSpec::new("C", Ty::I32).enums(&["5"]).category("Integer")));
        v.push(n(ColSpec::new("C", Ty::I16).category("Identifier")));
        v.push(n(ColSpec::new("C", Ty::I16).localizable()));
        v.push(n(ColSpec::new("C", Ty::Str(40)).category("GUID")));
        v.push(n(ColSpec::new("C", Ty::Str(0)).category("Identifier").enums(&["a", "9"])));
        // foreign-key annotations (to an existing table O with keys 1 and 2, to
        // the table itself, to a table that does not exist): an annotation, not
        // a documented reason to refuse a value
        v.push(n(ColSpec::new("C", Ty::I16).fk("O", 1)));
        v.push(n(ColSpec::new("C", Ty::I16).range(0, 100).fk("O", 1)));
        v.push(n(ColSpec::new("C", Ty::Str(8)).fk("O", 1)));
        v.push(n(ColSpec::new("C", Ty::I16).fk("G", 1)));
        v.push(n(ColSpec::new("C", Ty::I32).fk("Missing", 2)));
    }
    v
}

fn values() -> Vec<Val> {
    let mut v = vec![Val::Null];
    for n in [
        0i32,
        1,
        -1,
        2,
        3,
        4,
        5,
        6,
        7,
        99,
        100,
        101,
        32766,
        32767,
        32768,
        -32766,
        -32767,
        -32768,
        -32769,
        65535,
        65536,
        0x7fff_fffe,
        0x7fff_ffff,
        -0x7fff_fffe,
        -0x7fff_ffff,
        i32::MIN,
    ] {
        v.push(Val::Int(n));
    }
    for s in [
        "", "a", "A", "9", "bb", "abc", "abcd", "abcde", "\u{e9}", "\u{e9}\u{e9}\u{e9}", "\u{e9}\u{e9}\u{e9}\u{e9}", "\u{1F600}", "a;b", "_x", "%x", "1.2", "1033", "-5", "x.y", "#x",
        "{34AB5C53-9B30-4E14-AEF0-2C1C7BA826C0}", "{34ab5c53-9b30-4e14-aef0-2c1c7ba826c0}", "32768", "1,2", "A B", "ON ", "ON", " a", "b c", "b", " A",
    ] {
        v.push(Val::s(s));
    }
    v
}

fn tri_ok(t: Tri, got: bool) -> bool {
    match t {
        Tri::Accept => got,
        Tri::Reject => !got,
        Tri::Unspecified => true,
    }
}

type V = (String, String, serde_json::Value);

fn gate_case(col: &ColSpec, vals: &[Val], reopen: bool) -> (u64, u64, Vec<V>) {
    let mut out: Vec<V> = Vec::new();
    let mut n = 0u64;
    let mut accepted = 0u64;
    let mut h = match Harness::create(0) {
        Ok(h) => h,
        Err(e) => return (0, 0, vec![("machinery".into(), e, json!({}))]),
    };
    let cols = vec![ColSpec::new("K", Ty::I16).key(), col.clone()];
    let rep = |v: &Val| json!({"kind":"c07-gate","col":col,"value":v,"reopen":reopen});
    let sfx = if reopen { ":after-reopen" } else { "" };
    if col.fk.is_some() {
        let other = [Op::CreateTable { name: "O".into(), cols: vec![ColSpec::new("K", Ty::I16).key()] }, Op::Insert { table: "O".into(), rows: vec![vec![Val::Int(1)], vec![Val::Int(2)]] }];
        for op in &other {
            if !h.apply(op).is_ok() {
                return (0, 0, vec![("machinery:c07-fk-setup".into(), op.show(), json!({}))]);
            }
        }
    }
    match h.apply(&Op::CreateTable { name: "G".into(), cols }) {
        Outcome::Ok => {}
        o => return (0, 0, vec![(format!("create-table-refused:{:?}", col.category), format!("column {:?}: {:?}", col, o), json!({"col":col}))]),
    }
    let mcol = col.to_msi();
    // a row to update: first value the reference accepts
    let base = vals.iter().find(|v| col.accepts(v) == Tri::Accept).cloned();
    let mut have_base = false;
    if let Some(b) = &base {
        have_base = h.apply(&Op::Insert { table: "G".into(), rows: vec![vec![Val::Int(1), b.clone()]] }).is_ok();
        if !have_base {
            out.push((format!("gate:insert-refuses-valid:{}", col_class(col)), format!("column {:?} refuses {} which the reference accepts", col, b.show()), rep(b)));
        }
    }
    if reopen {
        // the column as the library rebuilds it from the saved catalog tables
        // must gate the same values
        match h.apply(&Op::Reopen) {
            Outcome::Ok => {}
            o => return (0, 0, vec![(format!("gate:reopen-fails:{}", col_class(col)), format!("column {:?}: save and reopen: {:?}", col, o), json!({"col":col}))]),
        }
    }
    let mut k = 10;
    for v in vals {
        n += 1;
        let want = col.accepts(v);
        let pred = match catch(|| mcol.is_valid_value(&v.to_msi())) {
            Ok(p) => p,
            Err(p) => {
                out.push((format!("validator-panic:{}", panic_site(&p)), format!("is_valid_value({}) on {:?} panicked: {}", v.show(), col, p), rep(v)));
                continue;
            }
        };
        if !tri_ok(want, pred) {
            out.push((
                format!("gate:is_valid_value-disagrees:{}:{}", col_class(col), val_class(v)),
                format!("column {:?}: is_valid_value({}) = {} but the reference says {:?}", col, v.show(), pred, want),
                rep(v),
            ));
        }
        k += 1;
        let ins = h.apply(&Op::Insert { table: "G".into(), rows: vec![vec![Val::Int(k), v.clone()]] });
        match &ins {
            Outcome::Panic(p) => {
                out.push((format!("gate:insert-panic:{}", panic_site(p)), format!("insert {} into {:?} panicked: {}", v.show(), col, p), rep(v)));
                return (n, accepted, out);
            }
            o => {
                if o.is_ok() != pred {
                    out.push((
                        format!("gate:insert-vs-validator:{}:{}{}", col_class(col), val_class(v), sfx),
                        format!("column {:?}{}: insert of {} returned {:?} but is_valid_value says {}", col, sfx, v.show(), o, pred),
                        rep(v),
                    ));
                }
                if o.is_ok() {
                    accepted += 1;
                }
            }
        }
        if let (true, Some(b)) = (have_base, &base) {
            // the same column assigned twice in one update: every assigned
            // value must be valid, whichever of them ends up stored
            let one = crate::val::E::bin(crate::val::Bin::Eq, crate::val::E::col("K"), crate::val::E::int(1));
            for (which, sets) in [("valid-then-this", vec![("C".to_string(), b.clone()), ("C".to_string(), v.clone())]), ("this-then-valid", vec![("C".to_string(), v.clone()), ("C".to_string(), b.clone())])] {
                let up = h.apply(&Op::Update { table: "G".into(), sets, cond: Some(one.clone()) });
                match &up {
                    Outcome::Panic(p) => {
                        out.push((format!("gate:update-panic:{}", panic_site(p)), format!("update assigning the column twice ({} {}) on {:?} panicked: {}", which, v.show(), col, p), rep(v)));
                        return (n, accepted, out);
                    }
                    o => {
                        if o.is_ok() != pred {
                            out.push((
                                format!("gate:update-assigning-twice-vs-validator:{}:{}:{}{}", which, col_class(col), val_class(v), sfx),
                                format!("column {:?}{}: update assigning the column twice ({}: {} and {}) returned {:?} but is_valid_value({}) says {}", col, sfx, which, b.show(), v.show(), o, v.show(), pred),
                                rep(v),
                            ));
                        }
                    }
                }
            }
            // leave the base row with the base value
            let _ = h.apply(&Op::Update { table: "G".into(), sets: vec![("C".to_string(), b.clone())], cond: Some(one) });
        }
        if have_base {
            let up = h.apply(&Op::Update { table: "G".into(), sets: vec![("C".into(), v.clone())], cond: Some(crate::val::E::bin(crate::val::Bin::Eq, crate::val::E::col("K"), crate::val::E::int(1))) });
            match &up {
                Outcome::Panic(p) => {
                    out.push((format!("gate:update-panic:{}", panic_site(p)), format!("update to {} on {:?} panicked: {}", v.show(), col, p), rep(v)));
                    return (n, accepted, out);
                }
                o => {
                    if o.is_ok() != pred {
                        out.push((
                            format!("gate:update-vs-validator:{}:{}{}", col_class(col), val_class(v), sfx),
                            format!("column {:?}{}: update to {} returned {:?} but is_valid_value says {}", col, sfx, v.show(), o, pred),
                            rep(v),
                        ));
                    }
                }
            }
        }
    }
    (n, accepted, out)
}

fn col_class(c: &ColSpec) -> String {
    format!(
        "{}{}{}{}",
        match c.ty {
            Ty::I16 => "i16".to_string(),
            Ty::I32 => "i32".to_string(),
            Ty::Str(w) => format!("str{}", w),
        },
        if c.range.is_some() { "+range" } else { "" },
        if c.enums.is_empty() { "" } else { "+enum" },
        c.category.as_ref().map(|x| format!("+{}", x)).unwrap_or_default()
    )
}

fn val_class(v: &Val) -> String {
    match v {
        Val::Null => "null".into(),
        Val::Int(n) => {
            if *n == i32::MIN {
                "int-min".into()
            } else if n.abs() > 32767 {
                "int-wide".into()
            } else {
                "int".into()
            }
        }
        Val::Str(s) => {
            if s.is_empty() {
                "empty-string".into()
            } else {
                "string".into()
            }
        }
    }
}

fn alphabet_for(cat: &str) -> Vec<char> {
    match cat {
        "Integer" | "DoubleInteger" => "+-0193 a".chars().collect(),
        "Identifier" | "Property" => "Aa_.09%\u{e9}- ".chars().collect(),
        "Version" => "019.65+-a".chars().collect(),
        "Language" => "019,+-a 6".chars().collect(),
        "Cabinet" => "#Aa._-\u{e9}1 ".chars().collect(),
        "UpperCase" | "LowerCase" => "Aa\u{e9}\u{c9}1\u{df} ".chars().collect(),
        "GUID" => "{}-0AFaG9".chars().collect(),
        _ => "a %;\u{e9}".chars().collect(),
    }
}

fn extra_strings(cat: &str) -> Vec<String> {
    let v: Vec<&str> = match cat {
        "Integer" | "DoubleInteger" => vec![
            "32767", "32768", "-32767", "-32768", "-32769", "2147483647", "2147483648", "-2147483647", "-2147483648", "-2147483649", "99999999999999999999", "007", "-0", "+5", "+32768", "1e3", "0x10", "１２",
        ],
        "Version" => vec!["65535", "65536", "1.65535", "1.65536", "1.2.3.4", "1.2.3.4.5", "1.2.3.65536", "0.0.0.0", "01.1", "1..2", "1.2.", ".1", "+1.2", "1.-2"],
        "Language" => vec!["1033", "65535", "65536", "1033,1036", "1033,", ",1033", "1033,,1036", "1033, 1036", "en-US", "+1033", "01033", "99999"],
        "Cabinet" => vec![
            "abcdefgh.abc", "abcdefghi.abc", "abcdefgh.abcd", "abcdefgh", "abcdefghi", ".abc", "a.", "a.b.c", "#", "#a", "#1", "#a.b", "#a b", "\u{e9}\u{e9}\u{e9}\u{e9}\u{e9}.txt", "a b.c", "hello.txt", "longfilename.long",
        ],
        "Identifier" | "Property" => vec!["HelloWorld", "_99.Bottles", "$HELLO", "3.14159", "%HelloWorld", "%", "Hello%World", "%%a", "a\u{0}b", "\u{430}\u{431}"],
        "GUID" => vec![
            "{34AB5C53-9B30-4E14-AEF0-2C1C7BA826C0}",
            "{34AB5C539B304E14AEF02C1C7BA826C0}",
            "{34ab5c53-9b30-4e14-aef0-2c1c7ba826c0}",
            "34AB5C53-9B30-4E14-AEF0-2C1C7BA826C0",
            "{HELLOWO-RLDH-ELLO-WORL-DHELLOWORLD0}",
            "{34AB5C53-9B30-4E14-AEF0-2C1C7BA826C}}",
            "{{4AB5C53-9B30-4E14-AEF0-2C1C7BA826C0}",
            "{34AB5C53-9B30-4E14-AEF0-2C1C7BA826C\u{e9}",
            "\u{e9}4AB5C53-9B30-4E14-AEF0-2C1C7BA826C0}",
            "{\u{e9}AB5C53-9B30-4E14-AEF0-2C1C7BA82C0}",
            "{34AB5C53-9B30-4E14-AEF0-2C1C7BA826C0} ",
            "{34AB5C53+9B30-4E14-AEF0-2C1C7BA826C0}",
            "{urn:uuid:34AB5C53-9B30-4E14-AEF0-2C1C}",
        ],
        _ => vec![],
    };
    v.into_iter().map(|s| s.to_string()).collect()
}

fn check_string(cat_name: &str, cat: msi::Category, col: &msi::Column, s: &str) -> (u8, Option<(String, String)>) {
    let want = category_accepts(cat_name, s);
    let got = match catch(|| cat.validate(s)) {
        Ok(g) => g,
        Err(p) => return (3, Some((format!("validate-panic:{}:{}", cat_name, panic_site(&p)), format!("{}.validate({:?}) panicked: {}", cat_name, s, p)))),
    };
    let class = match want {
        Tri::Accept => 0,
        Tri::Reject => 1,
        Tri::Unspecified => 2,
    };
    if !tri_ok(want, got) {
        return (
            class,
            Some((
                format!("category:{}:{}", cat_name, if got { "accepts-invalid" } else { "rejects-valid" }),
                format!("{}.validate({:?}) = {} but the documented grammar says {:?}", cat_name, s, got, want),
            )),
        );
    }
    // gate consistency: a column of that category (no width, no enum) answers the same
    let pred = match catch(|| col.is_valid_value(&msi::Value::Str(s.to_string()))) {
        Ok(p) => p,
        Err(p) => return (3, Some((format!("validator-panic:{}", panic_site(&p)), format!("is_valid_value({:?}) on a {} column panicked: {}", s, cat_name, p)))),
    };
    if pred != got {
        return (class, Some((format!("category-vs-column:{}", cat_name), format!("{}.validate({:?}) = {} but Column::is_valid_value = {}", cat_name, s, got, pred))));
    }
    (class, None)
}

fn guid_mutants(alphabet: &[char], double: bool) -> Vec<String> {
    let base: Vec<char> = "{34AB5C53-9B30-4E14-AEF0-2C1C7BA826C0}".chars().collect();
    let mut out = Vec::new();
    for i in 0..base.len() {
        for a in alphabet {
            let mut m = base.clone();
            m[i] = *a;
            out.push(m.iter().collect::<String>());
            if double {
                for j in (i + 1)..base.len() {
                    for b in alphabet {
                        let mut m2 = m.clone();
                        m2[j] = *b;
                        out.push(m2.iter().collect::<String>());
                    }
                }
            }
        }
    }
    // deletions and insertions
    for i in 0..base.len() {
        let mut m = base.clone();
        m.remove(i);
        out.push(m.iter().collect());
        for a in alphabet {
            let mut m = base.clone();
            m.insert(i, *a);
            out.push(m.iter().collect());
        }
    }
    out
}

pub fn run(tier: Tier) -> i32 {
    let mut rep = Report::new("C07", tier, "model_checking");
    rep.assume("three-valued reference (spec.rs, DESIGN.md appendix B): accept / reject are demanded; where the documentation is silent (leading '+', leading zeros, '-0', the most negative number, non-ASCII letters, several dots in a cabinet name ...) only totality and gate consistency are demanded");
    // ---- (a) gate equivalence -------------------------------------------
    let cols = column_defs();
    let vals = values();
    let gate_jobs: Vec<(&ColSpec, bool)> = cols.iter().flat_map(|c| [(c, false), (c, true)]).collect();
    let res: Vec<(u64, u64, Vec<V>)> = gate_jobs.par_iter().map(|(c, reopen)| gate_case(c, &vals, *reopen)).collect();
    let mut gate_n = 0u64;
    let mut gate_acc = 0u64;
    for (n, a, vs) in res {
        gate_n += n;
        gate_acc += a;
        for (sig, d, r) in vs {
            rep.violation(sig, d, r);
        }
    }
    // arities
    let mut arity_n = 0u64;
    for ncols in [1usize, 2, 32] {
        let r = catch(|| {
            let mut out = Vec::new();
            let mut h = Harness::create(0).expect("create");
            let mut cols = vec![ColSpec::new("K", Ty::I16).key()];
            for i in 1..ncols {
                cols.push(ColSpec::new(&format!("C{}", i), Ty::I16).nullable());
            }
            assert!(h.apply(&Op::CreateTable { name: "A".into(), cols }).is_ok());
            for n in 0..=33usize {
                let row: Vec<Val> = (0..n).map(|i| if i == 0 { Val::Int(n as i32 + 1) } else { Val::Int(1) }).collect();
                let o = h.apply(&Op::Insert { table: "A".into(), rows: vec![row] });
                let ok = matches!(o, Outcome::Ok);
                if ok != (n == ncols) || matches!(o, Outcome::Panic(_)) {
                    out.push((format!("arity:{}-columns", ncols), format!("table with {} columns: a row of {} values -> {:?}", ncols, n, o), json!({"kind":"c07-arity","cols":ncols,"values":n})));
                }
            }
            out
        });
        arity_n += 34;
        match r {
            Ok(vs) => {
                for (s, d, r) in vs {
                    rep.violation(s, d, r);
                }
            }
            Err(p) => rep.violation(format!("arity-panic:{}", panic_site(&p)), p, json!({"kind":"c07-arity","cols":ncols})),
        }
    }
    // ---- (b) category grammars -------------------------------------------
    let maxlen = if tier.thorough() { 8 } else { 5 };
    let mut cat_n = 0u64;
    let mut class_counts = [0u64; 4];
    for cat_name in ALL_CATEGORIES {
        let cat = msi::Category::from_str(cat_name).expect("category");
        let alphabet = alphabet_for(cat_name);
        let len_cap = if alphabet.len() <= 5 { maxlen.min(5) } else if alphabet.len() >= 10 { maxlen.min(7) } else { maxlen };
        let n = alphabet.len();
        let mut total = 0usize;
        for l in 0..=len_cap {
            total += n.pow(l as u32);
        }
        let strings_extra = extra_strings(cat_name);
        let results: Vec<(u8, Option<(String, String, String)>)> = (0..total + strings_extra.len())
            .into_par_iter()
            .map_init(
                || msi::Column::build("C").category(cat).string(0),
                |col, idx| {
                    let s: String = if idx >= total {
                        strings_extra[idx - total].clone()
                    } else {
                        // decode idx into (length, digits)
                        let mut i = idx;
                        let mut l = 0usize;
                        loop {
                            let c = n.pow(l as u32);
                            if i < c {
                                break;
                            }
                            i -= c;
                            l += 1;
                        }
                        let mut s = String::new();
                        for _ in 0..l {
                            s.push(alphabet[i % n]);
                            i /= n;
                        }
                        s
                    };
                    let (class, v) = check_string(cat_name, cat, col, &s);
                    (class, v.map(|(a, b)| (a, b, s)))
                },
            )
            .collect();
        for (class, v) in results {
            cat_n += 1;
            class_counts[class as usize] += 1;
            if let Some((sig, d, s)) = v {
                rep.violation(sig, d, json!({"kind":"c07-category","category":cat_name,"string":s}));
            }
        }
    }
    // GUID mutants
    let guid_alpha: Vec<char> = "{}-0AFaG9 \u{e9}gf".chars().collect();
    let mutants = guid_mutants(&guid_alpha, tier.thorough());
    let gcat = msi::Category::Guid;
    let gres: Vec<(u8, Option<(String, String, String)>)> = mutants
        .par_iter()
        .map_init(
            || msi::Column::build("C").category(gcat).string(0),
            |col, s| {
                let (c, v) = check_string("GUID", gcat, col, s);
                (c, v.map(|(a, b)| (a, b, s.clone())))
            },
        )
        .collect();
    for (class, v) in gres {
        cat_n += 1;
        class_counts[class as usize] += 1;
        if let Some((sig, d, s)) = v {
            rep.violation(sig, d, json!({"kind":"c07-category","category":"GUID","string":s}));
        }
    }
    // ---- (c) values the library builds -------------------------------------
    let mut built_n = 0u64;
    {
        let mut uuids: Vec<uuid::Uuid> = vec![uuid::Uuid::nil(), uuid::Uuid::from_u128(u128::MAX)];
        for pos in 0..32u32 {
            for nib in 0..16u128 {
                uuids.push(uuid::Uuid::from_u128(nib << (4 * pos)));
                uuids.push(uuid::Uuid::from_u128(u128::MAX ^ (nib << (4 * pos))));
            }
        }
        for u in uuids {
            built_n += 1;
            let v = msi::Value::from(u);
            let ok = match &v {
                msi::Value::Str(s) => category_accepts("GUID", s) == Tri::Accept && msi::Category::Guid.validate(s),
                _ => false,
            };
            if !ok {
                rep.violation("built-guid-invalid".into(), format!("Value::from({}) = {:?} is not a valid GUID value", u, v), json!({"kind":"c07-uuid","uuid":u.to_string()}));
            }
        }
        let codes = [0u16, 1, 9, 1033, 65535];
        let mut lists: Vec<Vec<u16>> = Vec::new();
        for a in codes {
            lists.push(vec![a]);
            for b in codes {
                lists.push(vec![a, b]);
                for c in codes {
                    lists.push(vec![a, b, c]);
                }
            }
        }
        for l in lists {
            built_n += 1;
            let langs: Vec<msi::Language> = l.iter().map(|c| msi::Language::from_code(*c)).collect();
            let v = msi::Value::from(&langs[..]);
            let ok = match &v {
                msi::Value::Str(s) => category_accepts("Language", s) == Tri::Accept && msi::Category::Language.validate(s),
                _ => false,
            };
            if !ok {
                rep.violation("built-language-invalid".into(), format!("Value::from({:?}) = {:?} is not a valid Language value", l, v), json!({"kind":"c07-lang","codes":l}));
            }
            if l.len() == 1 {
                let v1 = msi::Value::from(langs[0]);
                if v1 != v {
                    rep.violation("built-language-single".into(), format!("Value::from(Language {}) = {:?} differs from the one-element list form {:?}", l[0], v1, v), json!({"kind":"c07-lang","codes":l}));
                }
            }
        }
    }
    let total = gate_n * 3 + arity_n + cat_n + built_n;
    rep.set("states", total);
    rep.set("transitions", total);
    rep.set("traces_validated_against_impl", total);
    rep.set("evaluations", total);
    rep.set("distinct_nontrivial", class_counts[0] + gate_acc);
    rep.set("column_definitions", cols.len());
    rep.set("values_per_column", vals.len());
    rep.set("gate_pairs", gate_n);
    rep.set("gate_pairs_accepted", gate_acc);
    rep.set("arity_calls", arity_n);
    rep.set("category_strings", cat_n);
    rep.set("category_strings_must_accept", class_counts[0]);
    rep.set("category_strings_must_reject", class_counts[1]);
    rep.set("category_strings_unspecified", class_counts[2]);
    rep.set("library_built_values", built_n);
    rep.set("exhaustive", true);
    rep.set("rule", format!("(a) {} column definitions x {} values, on the table as created and again after save and reopen: insert Ok <=> update Ok <=> update assigning the column twice (valid + this value, either order) Ok <=> is_valid_value <=> three-valued reference; arities 0..33 against 1, 2, 32 columns; (b) every string of length <= {} over each category's adversarial alphabet (all 26 categories) plus boundary strings, and all single (thorough: and double) substitutions, deletions and insertions of a valid GUID; (c) Value::from(Uuid) for every nibble position x 16 values, Value::from(&[Language]) for all lists of length 1..3 over 5 codes. distinct_nontrivial = strings the grammar must accept + accepted (column, value) pairs", cols.len(), vals.len(), maxlen));
    let _ = BTreeSet::<u8>::new();
    rep.sample(json!({"column": cols[3], "value": vals[7]}));
    rep.sample(json!({"category": "Version", "string": "1.65536", "reference": format!("{:?}", category_accepts("Version", "1.65536"))}));
    rep.finish()
}

pub fn replay(doc: &serde_json::Value) {
    match doc["kind"].as_str().unwrap_or("") {
        "c07-gate" => {
            let col: ColSpec = serde_json::from_value(doc["col"].clone()).unwrap();
            let v: Val = serde_json::from_value(doc["value"].clone()).unwrap();
            let (_, _, vs) = gate_case(&col, &[v], doc["reopen"].as_bool().unwrap_or(false));
            for (s, d, _) in vs {
                println!("{}: {}", s, d);
            }
        }
        "c07-category" => {
            let c = doc["category"].as_str().unwrap();
            let s = doc["string"].as_str().unwrap();
            let cat = msi::Category::from_str(c).unwrap();
            println!("{}.validate({:?}) = {:?}; reference {:?}", c, s, catch(|| cat.validate(s)), category_accepts(c, s));
        }
        _ => println!("{}", doc),
    }
}

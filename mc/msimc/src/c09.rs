//! C09 — no input file can make the library panic.
//! E3b: structure-aware corruption enumeration of valid seed files (every
//! cell x bad values, every stream x truncation / extension / removal, pool
//! header and entries, property-set fields, root class id) and per-byte
//! replacement, run in worker subprocesses with a watchdog so that aborts,
//! stack overflows and hangs are observed as exit status.

use crate::dec;
use crate::enc;
use crate::ops::{Harness, Op, Outcome, SumOp};
use crate::report::{catch, panic_site, Report, Tier};
use crate::snapshot::snapshot;
use crate::spec::{ColSpec, Ty};
use crate::val::{Bin, Val, E};
use serde_json::json;
use std::collections::BTreeMap;
use std::io::{Cursor, Read, Write};
use std::process::{Command, Stdio};
use std::time::{Duration, Instant};

pub const SEEDS: [&str; 4] = ["empty", "tables", "enc3", "signed"];

pub fn seed_bytes(name: &str) -> Vec<u8> {
    match name {
        "empty" => Harness::create(0).expect("create").close_into_inner().expect("close"),
        "tables" => {
            let mut h = Harness::create(0).expect("create");
            let ops = vec![
                Op::CreateTable { name: "T1".into(), cols: vec![ColSpec::new("K", Ty::I16).key(), ColSpec::new("S", Ty::Str(8)).nullable(), ColSpec::new("N", Ty::I32).nullable()] },
                Op::CreateTable { name: "T2".into(), cols: vec![ColSpec::new("A", Ty::Str(4)).key(), ColSpec::new("B", Ty::I32).key().nullable(), ColSpec::new("C", Ty::Str(0)).nullable().localizable()] },
                Op::Insert { table: "T1".into(), rows: vec![vec![Val::Int(1), Val::s("a"), Val::Int(7)], vec![Val::Int(2), Val::Null, Val::Null], vec![Val::Int(3), Val::s("shared"), Val::Int(-1)]] },
                Op::Insert { table: "T2".into(), rows: vec![vec![Val::s("a"), Val::Int(1), Val::s("shared")], vec![Val::s("b"), Val::Null, Val::s("T1")]] },
                Op::WriteStream { name: "Data".into(), len: 40, seed: 3 },
                Op::Summary(SumOp::SetAuthor("Jane".into())),
                Op::Summary(SumOp::SetSubject("Subj".into())),
                Op::Summary(SumOp::SetComments("Comments".into())),
                Op::Summary(SumOp::SetApp("app".into())),
                Op::Summary(SumOp::SetArch("x64".into())),
                Op::Summary(SumOp::SetLanguages(vec![1033])),
                Op::Summary(SumOp::SetWordCount(2)),
                Op::Summary(SumOp::SetCreationTicks(12345)),
                Op::Summary(SumOp::SetUuid("0000002a-000c-0005-0c03-0938362b0809".into())),
            ];
            for op in &ops {
                assert!(h.apply(op).is_ok(), "{}", op.show());
            }
            h.close_into_inner().expect("close")
        }
        "enc3" => {
            let text: Vec<String> = vec!["a".into(), "b".into(), "c".into(), "d".into()];
            let col = |n: &str, ty: Ty, key: bool| enc::EncCol { spec: if key { ColSpec::new(n, ty).key() } else { ColSpec::new(n, ty).nullable() }, width1_quirk: false };
            let db = enc::EncDb {
                ptype: 0,
                codepage_id: 1252,
                long_refs: true,
                pool_style: enc::PoolStyle::Holes,
                with_validation: false,
                row_order: enc::RowOrder::Ascending,
                tables: vec![enc::EncTable {
                    name: "E".into(),
                    cols: vec![col("K", Ty::Str(0), true), col("I", Ty::I16, false), col("V", Ty::Str(9), false)],
                    rows: vec![vec![Val::Str(text[0].clone()), Val::Int(5), Val::s("x")], vec![Val::Str(text[1].clone()), Val::Null, Val::s("a")]],
                }],
                streams: vec![("bin".into(), vec![9, 8, 7])],
                summary: enc::default_summary(),
                extra_pool_strings: vec![],
                ghost_strings: vec![],
            };
            enc::encode(&db)
        }
        _ => crate::e1checks::signed_seed(),
    }
}

/// Rebuilds a compound file from (raw name -> bytes) with the given root class id.
fn rebuild(clsid: &str, entries: &BTreeMap<String, Vec<u8>>) -> Vec<u8> {
    let mut comp = cfb::CompoundFile::create(Cursor::new(Vec::new())).expect("cfb create");
    if let Ok(u) = uuid::Uuid::parse_str(clsid) {
        comp.set_storage_clsid("/", u).expect("clsid");
    }
    for (n, c) in entries {
        let mut s = comp.create_stream(format!("/{}", n)).expect("create stream");
        s.write_all(c).expect("write");
        s.flush().expect("flush");
    }
    comp.flush().expect("flush");
    comp.into_inner().into_inner()
}

#[derive(Clone, Debug)]
pub struct Corruption {
    pub desc: String,
    pub class: String,
    /// Some((clsid, entries)) = rebuild from entries; None = raw bytes
    pub bytes: Vec<u8>,
}

struct SeedInfo {
    bytes: Vec<u8>,
    clsid: String,
    entries: BTreeMap<String, Vec<u8>>,
    decoded: dec::Decoded,
}

fn seed_info(name: &str) -> SeedInfo {
    let bytes = seed_bytes(name);
    let (clsid, entries, _) = dec::container_entries(&bytes).expect("seed container");
    let decoded = dec::decode(&bytes).expect("seed decodes");
    SeedInfo { bytes, clsid, entries, decoded }
}

#[derive(Clone)]
enum Patch {
    Replace(String, Vec<u8>),
    Remove(String),
    None,
}

fn put(_e: &BTreeMap<String, Vec<u8>>, name: &str, content: Vec<u8>) -> Patch {
    Patch::Replace(name.to_string(), content)
}

fn apply_patch(e: &BTreeMap<String, Vec<u8>>, p: &Patch) -> BTreeMap<String, Vec<u8>> {
    let mut m = e.clone();
    match p {
        Patch::Replace(n, c) => {
            m.insert(n.clone(), c.clone());
        }
        Patch::Remove(n) => {
            m.remove(n);
        }
        Patch::None => {}
    }
    m
}

/// The structural menu for one seed, as (description, class, entries, clsid).
fn structural_menu(s: &SeedInfo, thorough: bool) -> Vec<(String, String, Patch, String)> {
    let mut out: Vec<(String, String, Patch, String)> = Vec::new();
    let d = &s.decoded;
    let pool_n = d.pool.len() as u32;
    // ---- cells ------------------------------------------------------------
    for (tname, t) in &d.tables {
        let raw = dec::mangle(tname, true);
        let stream = match s.entries.get(&raw) {
            Some(b) => b,
            None => continue,
        };
        let nrows = t.rows.len();
        // column kinds and widths from the decoded schema
        let widths: Vec<usize> = if tname == "_Tables" {
            vec![if d.long_refs { 3 } else { 2 }]
        } else if tname == "_Columns" {
            let sw = if d.long_refs { 3 } else { 2 };
            vec![sw, 2, sw, 2]
        } else if tname == "_Validation" {
            let sw = if d.long_refs { 3 } else { 2 };
            vec![sw, sw, sw, 4, 4, sw, 2, sw, sw, sw]
        } else {
            t.cols.iter().map(|(_, ty)| if ty & 0x800 != 0 { if d.long_refs { 3 } else { 2 } } else if ty & 0xff == 4 { 4 } else { 2 }).collect()
        };
        let mut col_off = 0usize;
        for (ci, w) in widths.iter().enumerate() {
            for ri in 0..nrows {
                let off = col_off + ri * w;
                for bad in [0u32, pool_n + 1, 0xFFFF, 0x8000, 0x7FFF, 1, 0x00FF_FFFF, 0x8000_0000] {
                    let mut b = stream.clone();
                    let le = bad.to_le_bytes();
                    if off + w > b.len() {
                        continue;
                    }
                    b[off..off + w].copy_from_slice(&le[..*w]);
                    if b == *stream {
                        continue;
                    }
                    out.push((format!("table {} row {} column {} <- {:#x}", tname, ri, ci, bad), format!("cell:{}", if tname.starts_with('_') { tname.as_str() } else { "user-table" }), put(&s.entries, &raw, b), s.clsid.clone()));
                }
            }
            col_off += nrows * w;
        }
    }
    // ---- streams: truncation / extension / removal ---------------------------
    for (raw, content) in &s.entries {
        let (nice, is_table) = dec::unmangle(raw);
        let label = if raw.starts_with('\u{5}') { raw[1..].to_string() } else if is_table { format!("table-stream {}", nice) } else { format!("stream {}", nice) };
        let cls = if raw.starts_with('\u{5}') { "summary".to_string() } else if is_table && (nice == "_StringPool" || nice == "_StringData") { nice.clone() } else if is_table { "table-stream".to_string() } else { "user-stream".to_string() };
        let mut lens: Vec<usize> = if content.len() <= 256 || thorough { (0..content.len()).collect() } else { (0..content.len()).filter(|l| l % 2 == 0 || *l < 64 || *l > content.len() - 64).collect() };
        lens.dedup();
        for l in lens {
            out.push((format!("{} truncated to {} of {} bytes", label, l, content.len()), format!("truncate:{}", cls), put(&s.entries, raw, content[..l].to_vec()), s.clsid.clone()));
        }
        for extra in 1..=4usize {
            let mut b = content.clone();
            b.extend(std::iter::repeat(0xAB).take(extra));
            out.push((format!("{} extended by {} bytes", label, extra), format!("extend:{}", cls), put(&s.entries, raw, b), s.clsid.clone()));
            let mut b = content.clone();
            b.extend(std::iter::repeat(0).take(extra));
            out.push((format!("{} extended by {} zero bytes", label, extra), format!("extend:{}", cls), put(&s.entries, raw, b), s.clsid.clone()));
        }
        out.push((format!("{} removed", label), format!("remove:{}", cls), Patch::Remove(raw.clone()), s.clsid.clone()));
    }
    // ---- pool header ----------------------------------------------------------
    let pool_raw = dec::mangle("_StringPool", true);
    let pool = s.entries.get(&pool_raw).expect("pool").clone();
    for id in 0u32..=0xFFFF {
        let supported = crate::c14::PAGES.iter().any(|p| p.0 as u32 == id) || id == 0;
        if supported && ![0u32, 932, 1252, 20127, 65001].contains(&id) {
            continue;
        }
        for width_bit in [false, true] {
            let mut b = pool.clone();
            let h = id | if width_bit { 0x8000_0000 } else { 0 };
            if b.len() >= 4 {
                b[..4].copy_from_slice(&h.to_le_bytes());
            }
            if b == pool {
                continue;
            }
            out.push((format!("pool header <- {:#x}", h), format!("pool-header:{}{}", if supported { "supported-codepage" } else { "unknown-codepage" }, if width_bit != d.long_refs { "+width-flipped" } else { "" }), put(&s.entries, &pool_raw, b), s.clsid.clone()));
        }
    }
    for hi in [0x0001_0000u32, 0x7FFF_0000, 0x4000_04E4] {
        let mut b = pool.clone();
        b[..4].copy_from_slice(&hi.to_le_bytes());
        out.push((format!("pool header <- {:#x}", hi), "pool-header:unknown-bits".into(), put(&s.entries, &pool_raw, b), s.clsid.clone()));
    }
    // ---- pool entries -----------------------------------------------------------
    let n_entries = (pool.len().saturating_sub(4)) / 4;
    for i in 0..n_entries {
        let off = 4 + 4 * i;
        let len = u16::from_le_bytes([pool[off], pool[off + 1]]);
        let rc = u16::from_le_bytes([pool[off + 2], pool[off + 3]]);
        let variants: Vec<(&str, u16, u16)> = vec![
            ("length beyond the data", 0xFFFF, rc.max(1)),
            ("length + 1", len.wrapping_add(1), rc),
            ("length 0 with a reference count", 0, rc.max(1)),
            ("reference count 0 with text", len.max(1), 0),
            ("both 0", 0, 0),
            ("reference count 65535", len, 0xFFFF),
            ("long-string escape", 0, 2),
            // escapes whose high word makes the next entry's length huge
            ("huge long-string escape", 0, 0xFFFF),
            ("2 GiB long-string escape", 0, 0x8000),
            ("16 MiB long-string escape", 0, 0x0100),
        ];
        for (what, l, r) in variants {
            let mut b = pool.clone();
            b[off..off + 2].copy_from_slice(&l.to_le_bytes());
            b[off + 2..off + 4].copy_from_slice(&r.to_le_bytes());
            if b == pool {
                continue;
            }
            out.push((format!("pool entry {} <- {}", i + 1, what), format!("pool-entry:{}", what.replace(' ', "-")), put(&s.entries, &pool_raw, b), s.clsid.clone()));
        }
    }
    // appended entries whose lengths add up to 2^32 and beyond
    for (what, pairs) in [
        ("one 4 GiB string", vec![(0u16, 0xFFFFu16), (0xFFFF, 1)]),
        ("two 2 GiB strings", vec![(0, 0x8000), (0, 1), (0, 0x8000), (0, 1)]),
        ("256 strings of 16 MiB", (0..256).flat_map(|_| vec![(0u16, 0x0100u16), (0, 1)]).collect::<Vec<_>>()),
        ("4 GiB + 1", vec![(0, 0xFFFF), (0xFFFF, 1), (1, 1)]),
    ] {
        let mut b = pool.clone();
        for (l, r) in pairs {
            b.extend_from_slice(&l.to_le_bytes());
            b.extend_from_slice(&r.to_le_bytes());
        }
        out.push((format!("pool extended by {}", what), "pool-entry:lengths-overflowing-32-bits".into(), put(&s.entries, &pool_raw, b), s.clsid.clone()));
    }
    // more entries than two-byte references can address (unused padding)
    for total in [65535usize, 65536, 65537, 70000] {
        if total <= n_entries {
            continue;
        }
        let mut b = pool.clone();
        b.resize(4 + 4 * total, 0);
        out.push((format!("pool padded with unused entries to {} entries", total), "pool-entry:more-entries-than-references-address".into(), put(&s.entries, &pool_raw, b.clone(), ), s.clsid.clone()));
        // the same with the reference-width flag flipped
        b[3] ^= 0x80;
        out.push((format!("pool padded with unused entries to {} entries, reference width flipped", total), "pool-entry:more-entries-than-references-address+width-flipped".into(), put(&s.entries, &pool_raw, b), s.clsid.clone()));
    }
    // escape as the very last entry (missing continuation)
    {
        let mut b = pool.clone();
        b.extend_from_slice(&[0, 0, 1, 0]);
        out.push(("pool ends with a long-string escape without continuation".into(), "pool-entry:dangling-escape".into(), put(&s.entries, &pool_raw, b), s.clsid.clone()));
    }
    // ---- property set ------------------------------------------------------------
    let sum_raw = "\u{5}SummaryInformation";
    if let Some(sum) = s.entries.get(sum_raw) {
        let mut field = |off: usize, width: usize, what: &str, vals: &[u32], out: &mut Vec<(String, String, Patch, String)>| {
            for v in vals {
                let mut b = sum.clone();
                if off + width > b.len() {
                    continue;
                }
                b[off..off + width].copy_from_slice(&v.to_le_bytes()[..width]);
                if b == *sum {
                    continue;
                }
                out.push((format!("summary {} <- {:#x}", what, v), format!("summary:{}", what.split(' ').next().unwrap_or("")), put(&s.entries, sum_raw, b), s.clsid.clone()));
            }
        };
        field(0, 2, "byte-order-mark", &[0, 0xFFFF, 0xFEFF], &mut out);
        field(2, 2, "version", &[1, 2, 0xFFFF], &mut out);
        field(6, 2, "os-kind", &[0, 1, 3, 0xFFFF], &mut out);
        field(24, 4, "reserved", &[0, 2, 0xFFFF_FFFF], &mut out);
        field(28, 4, "fmtid", &[0, 0xFFFF_FFFF], &mut out);
        let size = sum.len() as u32;
        field(44, 4, "section-offset", &[0, 4, 47, 49, 52, size - 1, size, size + 1, 0x7FFF_FFFF, 0xFFFF_FFFF], &mut out);
        let so = u32::from_le_bytes([sum[44], sum[45], sum[46], sum[47]]) as usize;
        if so + 8 <= sum.len() {
            let ssize = u32::from_le_bytes([sum[so], sum[so + 1], sum[so + 2], sum[so + 3]]);
            field(so, 4, "section-size", &[0, 4, ssize - 1, ssize + 1, 0xFFFF_FFFF], &mut out);
            let count = u32::from_le_bytes([sum[so + 4], sum[so + 5], sum[so + 6], sum[so + 7]]);
            field(so + 4, 4, "count", &[0, 1, count - 1, count + 1, 0x1000, 0x0FFF_FFFF, 0xFFFF_FFFF], &mut out);
            for i in 0..count as usize {
                let e = so + 8 + 8 * i;
                if e + 8 > sum.len() {
                    break;
                }
                let id = u32::from_le_bytes([sum[e], sum[e + 1], sum[e + 2], sum[e + 3]]);
                let off = u32::from_le_bytes([sum[e + 4], sum[e + 5], sum[e + 6], sum[e + 7]]);
                let other_ids: Vec<u32> = (0..20).chain([0xFFFF_FFFFu32]).collect();
                field(e, 4, &format!("name of property {}", id), &other_ids, &mut out);
                field(e + 4, 4, &format!("offset of property {}", id), &[0, 4, 8, off + 1, off + 2, off + 4, off - 4, ssize - 1, ssize, ssize - 4, 0x7FFF_FFFF, 0xFFFF_FFFF], &mut out);
                let p = so + off as usize;
                if p + 4 <= sum.len() {
                    let types: Vec<u32> = (0..=70).chain([0xFFFF, 0x1000 + 30, 0xFFFF_FFFF]).collect();
                    field(p, 4, &format!("type of property {}", id), &types, &mut out);
                    let ty = u32::from_le_bytes([sum[p], sum[p + 1], sum[p + 2], sum[p + 3]]);
                    if ty == 30 && p + 8 <= sum.len() {
                        let l = u32::from_le_bytes([sum[p + 4], sum[p + 5], sum[p + 6], sum[p + 7]]);
                        field(p + 4, 4, &format!("string-length of property {}", id), &[0, 1, l - 1, l + 1, l + 4, 0x1000, 0x00FF_FFFF, 0x7FFF_FFFF, 0xFFFF_FFFE, 0xFFFF_FFFF], &mut out);
                        // missing terminator
                        let mut b = sum.clone();
                        let end = p + 8 + l as usize - 1;
                        if end < b.len() {
                            b[end] = b'X';
                            out.push((format!("summary string of property {} not NUL-terminated", id), "summary:terminator".into(), put(&s.entries, sum_raw, b), s.clsid.clone()));
                        }
                    }
                    if ty == 2 && id == 1 {
                        // the code page property
                        for cp in [0u32, 1, 932, 1200, 20127, 28591, 37, 65000, 65001, 0xFFFF] {
                            let mut b = sum.clone();
                            b[p + 4..p + 6].copy_from_slice(&(cp as u16).to_le_bytes());
                            if b != *sum {
                                out.push((format!("summary code page <- {}", cp), "summary:codepage".into(), put(&s.entries, sum_raw, b), s.clsid.clone()));
                            }
                        }
                    }
                }
            }
        }
    }
    // ---- root class id ----------------------------------------------------------------
    for c in ["00000000-0000-0000-0000-000000000000", "000C1084-0000-0000-C000-000000000046", "000C1086-0000-0000-C000-000000000046", "000C1082-0000-0000-C000-000000000046", "000C1085-0000-0000-C000-000000000046", "DEADBEEF-0000-4000-8000-123456789ABC"] {
        if c != s.clsid {
            out.push((format!("root class id <- {}", c), "clsid".into(), Patch::None, c.to_string()));
        }
    }
    out
}

fn byte_patterns(b: u8, all: bool) -> Vec<u8> {
    if all {
        (0..=255u8).filter(|x| *x != b).collect()
    } else {
        let mut v = vec![0x00, 0xFF, b ^ 0x01, b ^ 0x80];
        v.sort();
        v.dedup();
        v.retain(|x| *x != b);
        v
    }
}

/// Everything done to one candidate file.  Returns (opened, violations).
fn exercise(bytes: &[u8], full_battery: bool) -> (bool, Vec<(String, String)>) {
    crate::snapshot::ACCESSOR_CHECKS.store(false, std::sync::atomic::Ordering::Relaxed);
    let mut out = Vec::new();
    let mut h = match catch(|| Harness::open(bytes.to_vec())) {
        Err(p) => return (false, vec![(format!("panic:open:{}", panic_site(&p)), format!("Package::open panicked: {}", p))]),
        Ok(Err(e)) => {
            if let Some(p) = e.strip_prefix("PANIC ") {
                return (false, vec![(format!("panic:open:{}", panic_site(p)), format!("Package::open panicked: {}", p))]);
            }
            return (false, out);
        }
        Ok(Ok(h)) => h,
    };
    // read battery
    let snap = match snapshot(h.p()) {
        Ok(s) => s,
        Err(p) => {
            out.push((format!("panic:read:{}", panic_site(&p)), format!("reading the opened package panicked: {}", p)));
            return (true, out);
        }
    };
    let names: Vec<String> = snap.tables.iter().map(|t| t.name.clone()).collect();
    let r = catch(|| {
        let p = h.p();
        for a in &names {
            // filtered select on the first column
            if let Some(t) = snap.table(a) {
                if let Some(c) = t.cols.first() {
                    let _ = p.select_rows(msi::Select::table(a.clone()).with(msi::Expr::col(c.name.clone()).eq(msi::Expr::integer(1)))).map(|r| r.count());
                    let _ = p.select_rows(msi::Select::table(a.clone()).columns(&[c.name.clone()])).map(|r| r.count());
                }
            }
            for b in &names {
                let ca = snap.table(a).and_then(|t| t.cols.first()).map(|c| c.name.clone());
                let cb = snap.table(b).and_then(|t| t.cols.first()).map(|c| c.name.clone());
                if let (Some(ca), Some(cb)) = (ca, cb) {
                    let on = msi::Expr::col(format!("{}.{}", a, ca)).eq(msi::Expr::col(format!("{}.{}", b, cb)));
                    let _ = p.select_rows(msi::Select::table(a.clone()).left_join(msi::Select::table(b.clone()), on)).map(|r| r.count());
                }
            }
        }
        let _ = p.has_stream("Data");
        let _ = p.read_stream("Nope").map(|_| ());
    });
    if let Err(p) = r {
        out.push((format!("panic:read:{}", panic_site(&p)), format!("selects/joins on the opened package panicked: {}", p)));
        return (true, out);
    }
    drop(h);
    if !full_battery {
        return (true, out);
    }
    // mutating operations, each on a fresh open, each followed by flush
    let user: Vec<&crate::snapshot::TableSnap> = snap.tables.iter().filter(|t| !t.name.starts_with('_')).collect();
    let mut ops: Vec<(String, Vec<Op>)> = vec![
        ("create_table".into(), vec![Op::CreateTable { name: "Zz".into(), cols: vec![ColSpec::new("K", Ty::I16).key(), ColSpec::new("S", Ty::Str(0)).nullable()] }, Op::Insert { table: "Zz".into(), rows: vec![vec![Val::Int(1), Val::s("fresh-string")]] }]),
        ("write_stream".into(), vec![Op::WriteStream { name: "NewStream".into(), len: 20, seed: 1 }]),
        ("summary".into(), vec![Op::Summary(SumOp::SetAuthor("x".into())), Op::Summary(SumOp::SetCodepage(1252))]),
        ("set_database_codepage".into(), vec![Op::SetDbCodepage(1252)]),
        ("remove_signature".into(), vec![Op::RemoveSignature]),
    ];
    if let Some((n, _)) = snap.streams.first() {
        ops.push(("remove_stream".into(), vec![Op::RemoveStream { name: n.clone() }]));
    }
    for t in user.iter().chain(snap.tables.iter().filter(|t| t.name == "_Validation").collect::<Vec<_>>().iter()) {
        let row: Vec<Val> = t.cols.iter().map(|c| match c.ty { Ty::Str(_) => Val::s("zz"), _ => Val::Int(77) }).collect();
        ops.push((format!("insert:{}", cls_t(&t.name)), vec![Op::Insert { table: t.name.clone(), rows: vec![row] }]));
        if let Some(c) = t.cols.iter().find(|c| !c.key) {
            let v = match c.ty {
                Ty::Str(_) => Val::s("upd"),
                _ => Val::Int(5),
            };
            ops.push((format!("update:{}", cls_t(&t.name)), vec![Op::Update { table: t.name.clone(), sets: vec![(c.name.clone(), v)], cond: None }]));
        }
        ops.push((format!("delete-all:{}", cls_t(&t.name)), vec![Op::Delete { table: t.name.clone(), cond: None }]));
        if let Some(c) = t.cols.first() {
            ops.push((format!("delete-where:{}", cls_t(&t.name)), vec![Op::Delete { table: t.name.clone(), cond: Some(E::bin(Bin::Ne, E::col(&c.name), E::int(1))) }]));
        }
        if !t.name.starts_with('_') {
            ops.push(("drop_table".into(), vec![Op::DropTable { name: t.name.clone() }]));
        }
    }
    for (label, seq) in ops {
        let mut h = match Harness::open(bytes.to_vec()) {
            Ok(h) => h,
            Err(_) => break,
        };
        let mut all = seq.clone();
        all.push(Op::Flush);
        all.push(Op::Reopen);
        for op in &all {
            match h.apply(op) {
                Outcome::Panic(p) => {
                    out.push((format!("panic:{}:{}", label, panic_site(&p)), format!("{} (then flush) on the opened package panicked at {}: {}", label, op.kind(), p)));
                    break;
                }
                _ => {}
            }
            if h.pkg.is_none() {
                break;
            }
        }
    }
    (true, out)
}

fn cls_t(name: &str) -> &str {
    if name.starts_with('_') {
        "catalog"
    } else {
        "user-table"
    }
}

// ------------------------------------------------------------------------- //
// worker protocol
// ------------------------------------------------------------------------- //

/// categories: "struct" (index into the structural menu), "byte" (index =
/// offset * patterns + k), "pair" (index into pairs of a reduced menu)
fn case_count(seed: &SeedInfo, cat: &str, thorough: bool) -> usize {
    match cat {
        "struct" => structural_menu(seed, thorough).len(),
        "byte" => seed.bytes.len() * if thorough { 255 } else { 4 },
        "pair" => {
            let m = reduced_menu(seed);
            m.len() * (m.len().saturating_sub(1)) / 2
        }
        _ => 0,
    }
}

/// Catalog cells and pool entries only, one bad value each that survives
/// `open` most often (for pairs).
fn reduced_menu(s: &SeedInfo) -> Vec<(String, String, String, Vec<(usize, Vec<u8>)>)> {
    // (desc, class, raw stream name, patches (offset, bytes))
    let mut out = Vec::new();
    let d = &s.decoded;
    let sw = if d.long_refs { 3 } else { 2 };
    for (tname, widths) in [("_Tables", vec![sw]), ("_Columns", vec![sw, 2, sw, 2])] {
        let raw = dec::mangle(tname, true);
        if let Some(t) = d.tables.get(tname) {
            let n = t.rows.len();
            let mut off = 0;
            for (ci, w) in widths.iter().enumerate() {
                for ri in 0..n {
                    for bad in [0u32, d.pool.len() as u32 + 1, 1] {
                        out.push((format!("{} row {} col {} <- {}", tname, ri, ci, bad), format!("cell:{}", tname), raw.clone(), vec![(off + ri * w, bad.to_le_bytes()[..*w].to_vec())]));
                    }
                }
                off += n * w;
            }
        }
    }
    let pool_raw = dec::mangle("_StringPool", true);
    for i in 0..d.pool.len() {
        out.push((format!("pool entry {} refcount 0", i + 1), "pool-entry".into(), pool_raw.clone(), vec![(4 + 4 * i + 2, vec![0, 0])]));
        out.push((format!("pool entry {} length 0", i + 1), "pool-entry".into(), pool_raw.clone(), vec![(4 + 4 * i, vec![0, 0])]));
    }
    out
}

pub fn worker(args: &[String]) -> i32 {
    // c09-worker <seed> <cat> <start> <end> <thorough 0/1> [progress]
    let seed = seed_info(&args[0]);
    let cat = args[1].as_str();
    let start: usize = args[2].parse().unwrap();
    let end: usize = args[3].parse().unwrap();
    let thorough = args[4] == "1";
    let progress = args.get(5).map(|s| s == "1").unwrap_or(false);
    let stdout = std::io::stdout();
    let mut opened = 0u64;
    let mut refused = 0u64;
    let emit = |sig: &str, detail: &str, desc: &str, idx: usize| {
        let line = json!({"sig": sig, "detail": detail, "desc": desc, "idx": idx});
        let mut o = stdout.lock();
        let _ = writeln!(o, "V {}", line);
    };
    let menu = if cat == "struct" { structural_menu(&seed, thorough) } else { vec![] };
    let reduced = if cat == "pair" { reduced_menu(&seed) } else { vec![] };
    let npat = if thorough { 255 } else { 4 };
    let seed_logical = (seed.clsid.clone(), seed.entries.clone());
    for idx in start..end {
        if progress {
            let mut o = stdout.lock();
            let _ = writeln!(o, "P {}", idx);
            let _ = o.flush();
        }
        let (desc, class, bytes, full): (String, String, Vec<u8>, bool) = match cat {
            "struct" => {
                let (d, c, e, cl) = &menu[idx];
                (d.clone(), c.clone(), rebuild(cl, &apply_patch(&seed.entries, e)), true)
            }
            "byte" => {
                let off = idx / npat;
                let k = idx % npat;
                let pats = byte_patterns(seed.bytes[off], thorough);
                if k >= pats.len() {
                    continue;
                }
                let mut b = seed.bytes.clone();
                b[off] = pats[k];
                // files whose logical content is unchanged get the read battery
                // only in the quick tier
                let full = thorough || match dec::container_entries(&b) {
                    Ok((c, e, _)) => (c, e) != seed_logical,
                    Err(_) => true,
                };
                (format!("byte {} <- {:#04x}", off, pats[k]), format!("byte:{}", region(off)), b, full)
            }
            _ => {
                // unrank pair
                let n = reduced.len();
                let mut i = 0usize;
                let mut rem = idx;
                while rem >= n - 1 - i {
                    rem -= n - 1 - i;
                    i += 1;
                }
                let j = i + 1 + rem;
                let mut e = seed.entries.clone();
                for k in [i, j] {
                    let (_, _, raw, patches) = &reduced[k];
                    if let Some(s) = e.get_mut(raw) {
                        for (off, b) in patches {
                            if off + b.len() <= s.len() {
                                s[*off..*off + b.len()].copy_from_slice(b);
                            }
                        }
                    }
                }
                (format!("{} + {}", reduced[i].0, reduced[j].0), format!("pair:{}+{}", reduced[i].1, reduced[j].1), rebuild(&seed.clsid, &e), true)
            }
        };
        let (ok, vs) = exercise(&bytes, full);
        if ok {
            opened += 1;
        } else {
            refused += 1;
        }
        for (sig, detail) in vs {
            // The signature names the phase and the panic site; the corruption
            // class goes into the detail.  A panic whose site is inside a
            // dependency (path begins with "<crate>-<version>/") is keyed by
            // the site alone: which library call happened to reach it does
            // not distinguish defects of the dependency.
            let site = sig.rsplit(':').next().unwrap_or("");
            let in_dependency = site.split('/').next().map(|c| c.contains('-') && c.chars().any(|x| x.is_ascii_digit())).unwrap_or(false);
            let sig = if in_dependency { format!("panic-in-dependency:{}", site) } else { sig };
            emit(&sig, &format!("[{}] {}", class, detail), &desc, idx);
        }
    }
    println!("DONE {} {} {}", end - start, opened, refused);
    0
}

fn region(off: usize) -> &'static str {
    if off < 512 {
        "header"
    } else {
        "body"
    }
}

struct ChunkResult {
    cases: u64,
    opened: u64,
    refused: u64,
    violations: Vec<(String, String, String, usize)>,
    died: Option<String>,
}

fn run_chunk(seed: &str, cat: &str, start: usize, end: usize, thorough: bool, timeout: Duration, progress: bool) -> ChunkResult {
    let exe = std::env::current_exe().expect("exe");
    let mut child = Command::new(exe)
        .args(["c09-worker", seed, cat, &start.to_string(), &end.to_string(), if thorough { "1" } else { "0" }, if progress { "1" } else { "0" }])
        .stdout(Stdio::piped())
        .stderr(Stdio::null())
        .spawn()
        .expect("spawn worker");
    let mut out = child.stdout.take().unwrap();
    let reader = std::thread::spawn(move || {
        let mut s = String::new();
        let _ = out.read_to_string(&mut s);
        s
    });
    let t0 = Instant::now();
    let status = loop {
        match child.try_wait() {
            Ok(Some(st)) => break Some(st),
            Ok(None) => {
                if t0.elapsed() > timeout {
                    let _ = child.kill();
                    let _ = child.wait();
                    break None;
                }
                std::thread::sleep(Duration::from_millis(5));
            }
            Err(_) => break None,
        }
    };
    let text = reader.join().unwrap_or_default();
    let mut r = ChunkResult { cases: 0, opened: 0, refused: 0, violations: vec![], died: None };
    let mut done = false;
    let mut last_progress: Option<usize> = None;
    for line in text.lines() {
        if let Some(rest) = line.strip_prefix("V ") {
            if let Ok(v) = serde_json::from_str::<serde_json::Value>(rest) {
                r.violations.push((v["sig"].as_str().unwrap_or("").to_string(), v["detail"].as_str().unwrap_or("").to_string(), v["desc"].as_str().unwrap_or("").to_string(), v["idx"].as_u64().unwrap_or(0) as usize));
            }
        } else if let Some(rest) = line.strip_prefix("DONE ") {
            let p: Vec<u64> = rest.split(' ').filter_map(|x| x.parse().ok()).collect();
            if p.len() == 3 {
                r.cases = p[0];
                r.opened = p[1];
                r.refused = p[2];
                done = true;
            }
        } else if let Some(rest) = line.strip_prefix("P ") {
            last_progress = rest.parse().ok();
        }
    }
    if !done {
        r.died = Some(match status {
            None => format!("hang: no result within {:?} (last case started: {:?})", timeout, last_progress),
            Some(st) => format!("worker died with {:?} (last case started: {:?})", st, last_progress),
        });
    }
    r
}

/// Packages in which _Tables / _Columns list the catalog tables (or the string
/// pool) themselves, with schemas other than the built-in ones.
fn self_describing_catalogs() -> Vec<(String, Vec<u8>)> {
    let mut out = Vec::new();
    // type words as the library writes them
    let int16_key = ColSpec::new("X", Ty::I16).key().type_word();
    let int16 = ColSpec::new("X", Ty::I16).nullable().type_word();
    let str_key = ColSpec::new("X", Ty::Str(64)).key().type_word();
    let str_n = ColSpec::new("X", Ty::Str(0)).nullable().type_word();
    let col = |t: &str, n: i32, name: &str, tw: i32| vec![Val::s(t), Val::Int(n), Val::s(name), Val::Int(tw)];
    let variants: Vec<(&str, Vec<Vec<Val>>, Vec<&str>)> = vec![
        ("_Tables with a second (key) column", vec![col("_Tables", 1, "Name", str_key), col("_Tables", 2, "Extra", int16_key)], vec!["_Tables"]),
        ("_Tables with an integer name column", vec![col("_Tables", 1, "Name", int16_key)], vec!["_Tables"]),
        ("_Columns with three columns", vec![col("_Columns", 1, "Table", str_key), col("_Columns", 2, "Number", int16_key), col("_Columns", 3, "Name", str_n)], vec!["_Columns"]),
        ("_Columns with five columns", vec![col("_Columns", 1, "Table", str_key), col("_Columns", 2, "Number", int16_key), col("_Columns", 3, "Name", str_n), col("_Columns", 4, "Type", int16), col("_Columns", 5, "More", int16)], vec!["_Columns"]),
        ("_Validation with two columns", vec![col("_Validation", 1, "Table", str_key), col("_Validation", 2, "Column", str_key)], vec![]),
        ("_Validation with twelve columns", (1..=12).map(|i| col("_Validation", i, &format!("C{}", i), if i <= 2 { str_key } else { str_n })).collect(), vec![]),
        ("_StringPool listed as a table", vec![col("_StringPool", 1, "K", int16_key)], vec!["_StringPool"]),
        ("_StringData listed as a table", vec![col("_StringData", 1, "K", str_key)], vec!["_StringData"]),
        ("rows for a table that is not in _Tables", vec![col("Ghost", 1, "K", int16_key)], vec![]),
        ("a table in _Tables without columns", vec![], vec!["NoCols"]),
    ];
    for (desc, col_rows, table_rows) in variants {
        let mut h = match Harness::create(0) {
            Ok(h) => h,
            Err(_) => continue,
        };
        let mut ops = vec![
            Op::CreateTable { name: "T1".into(), cols: vec![ColSpec::new("K", Ty::I16).key(), ColSpec::new("S", Ty::Str(8)).nullable()] },
            Op::Insert { table: "T1".into(), rows: vec![vec![Val::Int(1), Val::s("a")]] },
        ];
        // the built-in definition must be removed first where the key would collide
        for r in &col_rows {
            if let (Val::Str(t), Val::Int(n)) = (&r[0], &r[1]) {
                ops.push(Op::Delete { table: "_Columns".into(), cond: Some(E::bin(Bin::And, E::bin(Bin::Eq, E::col("Table"), E::str(t)), E::bin(Bin::Eq, E::col("Number"), E::int(*n)))) });
            }
        }
        if !col_rows.is_empty() {
            ops.push(Op::Insert { table: "_Columns".into(), rows: col_rows.clone() });
        }
        for t in &table_rows {
            ops.push(Op::Delete { table: "_Tables".into(), cond: Some(E::bin(Bin::Eq, E::col("Name"), E::str(t))) });
            ops.push(Op::Insert { table: "_Tables".into(), rows: vec![vec![Val::s(t)]] });
        }
        let mut ok = true;
        for op in &ops {
            match h.apply(op) {
                Outcome::Panic(_) => {
                    ok = false;
                    break;
                }
                _ => {}
            }
            if h.pkg.is_none() {
                ok = false;
                break;
            }
        }
        if !ok {
            continue;
        }
        if let Ok(bytes) = h.close_into_inner() {
            out.push((desc.to_string(), bytes));
        }
    }
    out
}

pub fn run(tier: Tier) -> i32 {
    let mut rep = Report::new("C09", tier, "fault_enumeration");
    rep.assume("corruptions are enumerated from valid seed files; unstructured random bytes (which almost never pass the container's header check) are outside the family and are not sampled");
    rep.assume("in the quick tier a per-byte mutant whose container-level content (class id + streams) is unchanged gets the open + read battery only; the thorough tier runs the mutating battery on every mutant");
    let thorough = tier.thorough();
    let mut jobs: Vec<(String, String, usize, usize)> = Vec::new();
    let mut counts = serde_json::Map::new();
    for seed in SEEDS {
        let info = seed_info(seed);
        let mut cats: Vec<&str> = vec!["struct"];
        if seed == "empty" || seed == "tables" {
            cats.push("byte");
        }
        if thorough && (seed == "tables" || seed == "enc3") {
            cats.push("pair");
        }
        for cat in cats {
            let n = case_count(&info, cat, thorough);
            counts.insert(format!("{}:{}", seed, cat), json!(n));
            let chunk = if cat == "byte" { 4000 } else { 1500 };
            let mut s = 0;
            while s < n {
                let e = (s + chunk).min(n);
                jobs.push((seed.to_string(), cat.to_string(), s, e));
                s = e;
            }
        }
    }
    let timeout = Duration::from_secs(if thorough { 900 } else { 240 });
    use rayon::prelude::*;
    let results: Vec<((String, String, usize, usize), ChunkResult)> = jobs
        .par_iter()
        .map(|j| {
            let r = run_chunk(&j.0, &j.1, j.2, j.3, thorough, timeout, false);
            (j.clone(), r)
        })
        .collect();
    let mut cases = 0u64;
    let mut opened = 0u64;
    let mut refused = 0u64;
    for (j, r) in results {
        let mut r = r;
        if let Some(why) = r.died.clone() {
            // locate the case: re-run the chunk with progress reporting
            let r2 = run_chunk(&j.0, &j.1, j.2, j.3, thorough, timeout, true);
            let why2 = r2.died.clone().unwrap_or(why);
            rep.violation(
                format!("abort-or-hang:{}:{}", j.0, j.1),
                format!("worker for seed {} category {} cases {}..{}: {}", j.0, j.1, j.2, j.3, why2),
                json!({"kind":"c09","seed":j.0,"cat":j.1,"start":j.2,"end":j.3,"thorough":thorough}),
            );
            r = r2;
        }
        cases += r.cases;
        opened += r.opened;
        refused += r.refused;
        for (sig, detail, desc, idx) in r.violations {
            rep.violation(sig, format!("seed {} / {}: {}", j.0, desc, detail), json!({"kind":"c09","seed":j.0,"cat":j.1,"start":idx,"end":idx + 1,"thorough":thorough}));
        }
    }
    // ---- files whose catalog describes the catalog tables themselves -----------
    // (built through the public API: rows for _Tables/_Columns/_Validation/
    // _StringPool in _Tables and _Columns); each gets the full battery
    let selfdesc = self_describing_catalogs();
    for (desc, bytes) in &selfdesc {
        cases += 1;
        let (op, vs) = exercise(bytes, true);
        if op {
            opened += 1;
        } else {
            refused += 1;
        }
        for (sig, detail) in vs {
            rep.violation(format!("self-described-catalog:{}", sig), format!("{}: {}", desc, detail), json!({"kind":"c09-selfdesc","desc":desc}));
        }
    }
    rep.set("self_describing_catalog_files", selfdesc.len());
    rep.set("evaluations", cases);
    rep.set("distinct_nontrivial", opened);
    rep.set("corrupted_files", cases);
    rep.set("files_that_opened_and_ran_the_battery", opened);
    rep.set("files_refused_by_open", refused);
    rep.set("cases_per_seed_and_category", serde_json::Value::Object(counts));
    rep.set("worker_processes", jobs.len());
    rep.set("exhaustive", true);
    rep.set("rule", "10 packages whose catalog describes the catalog tables or the string pool themselves (built through the API), full battery. 4 seeds (empty installer; two tables + stream + full summary; 3-byte references without _Validation from the independent encoder; signed). Deviation 1: every cell of every catalog and user table x 8 bad values; every stream truncated to every length (<= 256 bytes, else every even length and the first/last 64), extended by 1..4 bytes, removed; every unsupported 16-bit code-page id (+5 supported) x both width bits in the pool header; every pool entry x 7 malformations; every property-set header field, name, offset, type (0..70) and string length x bad values; root class ids; every byte of seeds 1 and 2 x 4 patterns (thorough: all 255). Thorough deviation 2: all pairs over catalog cells and pool entries. Each file: open; read battery (all tables, filtered/projected selects, joins of every ordered table pair, summary, streams); every mutating operation of the menu + flush + reopen on a fresh open. Workers are subprocesses with a watchdog. distinct_nontrivial = corrupted files that still opened");
    rep.sample(json!({"seed":"tables","corruption":"table _Columns row 0 column 0 <- 0 (null table name)"}));
    rep.sample(json!({"seed":"tables","corruption":"pool entry 3 <- reference count 0 with text"}));
    rep.finish()
}

pub fn replay(doc: &serde_json::Value) {
    if doc["kind"] == "c09-selfdesc" {
        let want = doc["desc"].as_str().unwrap_or("");
        for (desc, bytes) in self_describing_catalogs() {
            if desc == want {
                let (opened, vs) = exercise(&bytes, true);
                println!("{}: opened={}", desc, opened);
                for (sig, detail) in vs {
                    println!("{} :: {}", sig, detail);
                }
            }
        }
        return;
    }
    let seed = doc["seed"].as_str().unwrap_or("tables");
    let cat = doc["cat"].as_str().unwrap_or("struct");
    let start = doc["start"].as_u64().unwrap_or(0) as usize;
    let end = doc["end"].as_u64().unwrap_or(1) as usize;
    let r = run_chunk(seed, cat, start, end, doc["thorough"].as_bool().unwrap_or(false), Duration::from_secs(120), true);
    println!("cases {} opened {} refused {} died {:?}", r.cases, r.opened, r.refused, r.died);
    for (sig, detail, desc, idx) in r.violations {
        println!("[{}] {} :: {} :: {}", idx, desc, sig, detail);
    }
}

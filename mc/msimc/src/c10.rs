//! C10 — summary information survives saving, in every code page.
//! E1 part: sequences of setters/clearers/code-page switches (e1checks.rs).
//! E2 part: 26 code pages x 6 string properties x strings of every length
//! class, checked immediately, in the raw stream (strict parser) and after
//! reopen.

use crate::c14::{ref_decode, ref_encode, PAGES};
use crate::dec;
use crate::e1checks::run_c10_e1;
use crate::ops::{Harness, Op, SumOp};
use crate::report::{Report, Tier};
use crate::snapshot::summary_snap;
use rayon::prelude::*;
use serde_json::json;

#[derive(Clone, Copy, Debug, PartialEq, Eq)]
enum Prop {
    Title,
    Subject,
    Author,
    Comments,
    Arch,
    App,
}

const PROPS: [Prop; 6] = [Prop::Title, Prop::Subject, Prop::Author, Prop::Comments, Prop::Arch, Prop::App];

fn set_op(p: Prop, s: &str) -> Op {
    Op::Summary(match p {
        Prop::Title => SumOp::SetTitle(s.into()),
        Prop::Subject => SumOp::SetSubject(s.into()),
        Prop::Author => SumOp::SetAuthor(s.into()),
        Prop::Comments => SumOp::SetComments(s.into()),
        Prop::Arch => SumOp::SetArch(s.into()),
        Prop::App => SumOp::SetApp(s.into()),
    })
}

/// Characters by (UTF-8 length, encoded length / unmappable) class.
fn class_chars(cp: i32) -> Vec<(String, char)> {
    let cands = [
        'a', '\u{e9}', '\u{416}', '\u{3a9}', '\u{142}', '\u{5d0}', '\u{627}', '\u{e01}', '\u{20ac}', '\u{2122}', '\u{3042}', '\u{4e2d}', '\u{d55c}', '\u{ff76}', '\u{2603}', '\u{1F600}',
    ];
    let mut seen = std::collections::BTreeSet::new();
    let mut out = Vec::new();
    for c in cands {
        let s = c.to_string();
        let e = ref_encode(cp, &s);
        let rt = ref_decode(cp, &e) == s;
        let cls = if rt { format!("utf8:{}/enc:{}", c.len_utf8(), e.len()) } else { format!("utf8:{}/unmappable", c.len_utf8()) };
        if seen.insert(cls.clone()) {
            out.push((cls, c));
        }
    }
    out
}

struct Case {
    cp: i32,
    prop: Prop,
    text: String,
    class: String,
}

fn run_case(c: &Case) -> Vec<(String, String)> {
    let mut out = Vec::new();
    let mut h = match Harness::create(0) {
        Ok(h) => h,
        Err(e) => return vec![("machinery".into(), e)],
    };
    let mut ops = vec![
        Op::Summary(SumOp::SetCodepage(c.cp)),
        Op::Summary(SumOp::SetTitle("t".into())),
        Op::Summary(SumOp::SetSubject("su".into())),
        Op::Summary(SumOp::SetAuthor("aut".into())),
        Op::Summary(SumOp::SetComments("comm".into())),
        Op::Summary(SumOp::SetArch("x64".into())),
        Op::Summary(SumOp::SetLanguages(vec![1033])),
        Op::Summary(SumOp::SetApp("appli".into())),
        Op::Summary(SumOp::SetWordCount(7)),
        Op::Summary(SumOp::SetCreationTicks(123456789)),
    ];
    ops.push(set_op(c.prop, &c.text));
    for op in &ops {
        match h.apply(op) {
            crate::ops::Outcome::Ok => {}
            o => {
                out.push((format!("setter-failed:{}", op.kind()), format!("cp {} {:?}: {} -> {:?}", c.cp, c.prop, op.show(), o)));
                return out;
            }
        }
    }
    let before = summary_snap(h.p().summary_info());
    let get = |s: &crate::snapshot::SummarySnap, p: Prop| -> Option<String> {
        match p {
            Prop::Title => s.title.clone(),
            Prop::Subject => s.subject.clone(),
            Prop::Author => s.author.clone(),
            Prop::Comments => s.comments.clone(),
            Prop::Arch => s.arch.clone(),
            Prop::App => s.creating_app.clone(),
        }
    };
    let want_now = if c.prop == Prop::Arch && c.text.is_empty() { None } else { Some(c.text.clone()) };
    if get(&before, c.prop) != want_now {
        out.push((format!("getter-immediately:{:?}", c.prop), format!("cp {}: set {:?} to {:?}, getter returns {:?}", c.cp, c.prop, c.text, get(&before, c.prop))));
    }
    let bytes = match h.close_into_inner() {
        Ok(b) => b,
        Err(e) => {
            out.push(("close-failed".into(), e));
            return out;
        }
    };
    // strict parse of the raw stream
    match dec::container_entries(&bytes) {
        Err(e) => out.push(("container-unreadable".into(), e)),
        Ok((_, entries, _)) => match entries.get("\u{5}SummaryInformation") {
            None => out.push(("no-summary-stream".into(), "no summary stream".into())),
            Some(s) => {
                let mut problems = Vec::new();
                match dec::parse_summary(s, &mut problems) {
                    Err(e) => out.push((format!("summary-stream-unparseable:{}", c.class), format!("cp {} {:?}={:?}: {}", c.cp, c.prop, c.text, e))),
                    Ok(sum) => {
                        for p in problems {
                            out.push((format!("summary-stream-malformed:{}", c.class), format!("cp {} {:?}={:?}: {}", c.cp, c.prop, c.text, p)));
                        }
                        let id = match c.prop {
                            Prop::Title => 2,
                            Prop::Subject => 3,
                            Prop::Author => 4,
                            Prop::Comments => 6,
                            Prop::Arch => 7,
                            Prop::App => 18,
                        };
                        let want: Vec<u8> = if c.prop == Prop::Arch { ref_encode(c.cp, &format!("{};1033", c.text)) } else { ref_encode(c.cp, &c.text) };
                        match sum.props.get(&id) {
                            Some((_, dec::PropVal::Str(b))) if *b == want => {}
                            other => out.push((format!("summary-stream-value:{}", c.class), format!("cp {} {:?}={:?}: raw property {} is {:?}, expected bytes {:02x?}", c.cp, c.prop, c.text, id, other, want))),
                        }
                        let want_cp = if c.cp == 65001 { 65001u16 } else { c.cp as u16 };
                        if sum.codepage != Some(want_cp) {
                            out.push(("summary-stream-codepage".into(), format!("cp {}: raw code page property {:?}", c.cp, sum.codepage)));
                        }
                    }
                }
            }
        },
    }
    // reopen
    match Harness::open(bytes) {
        Err(e) => out.push((format!("reopen-fails:{}", c.class), format!("cp {} {:?}={:?}: {}", c.cp, c.prop, c.text, e))),
        Ok(mut h2) => {
            let after = summary_snap(h2.p().summary_info());
            let representable = ref_decode(c.cp, &ref_encode(c.cp, &c.text)) == c.text;
            let mut b2 = before.clone();
            let mut a2 = after.clone();
            if !representable {
                // only the other properties are promised
                match c.prop {
                    Prop::Title => { b2.title = None; a2.title = None; }
                    Prop::Subject => { b2.subject = None; a2.subject = None; }
                    Prop::Author => { b2.author = None; a2.author = None; }
                    Prop::Comments => { b2.comments = None; a2.comments = None; }
                    Prop::Arch => { b2.arch = None; a2.arch = None; }
                    Prop::App => { b2.creating_app = None; a2.creating_app = None; }
                }
            }
            if b2 != a2 {
                out.push((format!("reopen-differs:{}", c.class), format!("cp {} {:?}={:?}: before {:?} after {:?}", c.cp, c.prop, c.text, b2, a2)));
            }
        }
    }
    out
}

pub fn run(tier: Tier) -> i32 {
    let mut rep = Report::new("C10", tier, "model_checking");
    rep.assume("architecture strings contain no ';' (the template separator); strict property-set parser: dec.rs parse_summary; representability decided by encoding_rs by label");
    rep.assume("cfb behaves the same for every physical layout of the same logical content (state key)");
    let st = run_c10_e1(tier, &mut rep);
    let e1_states = st.states;
    let e1_transitions = st.transitions;
    // ---- E2 -------------------------------------------------------------
    let mut cases = Vec::new();
    for (cp, _) in PAGES.iter() {
        let classes = class_chars(*cp);
        for prop in PROPS {
            for (cls, ch) in &classes {
                for len in 0..=9usize {
                    // pure repetition
                    let t: String = std::iter::repeat(*ch).take(len).collect();
                    cases.push(Case { cp: *cp, prop, text: t, class: cls.clone() });
                    // alternating with 'a' (shifts both length residues)
                    if *ch != 'a' && len > 0 {
                        let t: String = (0..len).map(|i| if i % 2 == 0 { *ch } else { 'a' }).collect();
                        cases.push(Case { cp: *cp, prop, text: t, class: cls.clone() });
                    }
                }
            }
        }
    }
    // strings whose encoded bytes begin like a byte-order mark
    for (cp, _) in PAGES.iter() {
        for text in ["\u{feff}abc", "\u{ff}\u{fe}ab", "\u{fe}\u{ff}ab", "\u{ef}\u{bb}\u{bf}ab", "\u{feff}", "\u{44f}\u{44e}ab"] {
            if ref_decode(*cp, &ref_encode(*cp, text)) != text {
                continue;
            }
            let b = ref_encode(*cp, text);
            let bomlike = b.starts_with(&[0xFF, 0xFE]) || b.starts_with(&[0xFE, 0xFF]) || b.starts_with(&[0xEF, 0xBB, 0xBF]);
            if !bomlike {
                continue;
            }
            for prop in PROPS {
                cases.push(Case { cp: *cp, prop, text: text.to_string(), class: "bom-like-prefix".into() });
            }
        }
    }
    // long strings: every length up to beyond the container's buffer, sector
    // and small-stream sizes for two properties (one in the middle of the set,
    // one last), then the sizes around 16 and 64 KiB for every property
    for (cp, ch) in [(1252, 'a'), (1252, '\u{e9}'), (65001, '\u{e9}')] {
        let step = if tier.thorough() || ch == 'a' { 1 } else { 7 };
        for prop in [Prop::Comments, Prop::App] {
            for len in (10..=8300usize).step_by(step) {
                let t: String = std::iter::repeat(ch).take(len).collect();
                cases.push(Case { cp, prop, text: t, class: "long".into() });
            }
        }
        for prop in PROPS {
            for len in [16383usize, 16384, 16385, 65535, 65536, 70001, 200000, (1 << 20) - 1, 1 << 20, (1 << 20) + 1, 3 << 20] {
                let t: String = std::iter::repeat(ch).take(len).collect();
                cases.push(Case { cp, prop, text: t, class: "long".into() });
            }
        }
    }
    let results: Vec<Vec<(String, String)>> = cases.par_iter().map(run_case).collect();
    let mut classes = std::collections::BTreeSet::new();
    for (c, r) in cases.iter().zip(results.into_iter()) {
        classes.insert((c.cp, c.class.clone(), c.text.len() % 4, ref_encode(c.cp, &c.text).len() % 4));
        for (sig, detail) in r {
            rep.violation(format!("e2:{}", sig), detail, json!({"kind":"c10-case","cp":c.cp,"prop":format!("{:?}", c.prop),"text":c.text}));
        }
    }
    rep.set("e2_cases", cases.len());
    rep.set("e2_distinct_length_classes", classes.len());
    rep.set("e1_states", e1_states);
    rep.set("e1_transitions", e1_transitions);
    rep.add("states", cases.len() as i64);
    rep.add("transitions", cases.len() as i64);
    rep.add("traces_validated_against_impl", cases.len() as i64);
    rep.set("rule", "E1: all sequences over setters/clearers of the ten properties and code-page switches (incl. back to UTF-8) up to the completed depth, every state saved 3 ways, strict-parsed and reopened; E2: 26 code pages x 6 string properties (placed first/middle/last in the set by their ids) x strings of length 0..9 from every (UTF-8 length, encoded length | unmappable) character class of the page, pure and alternating with ASCII, so every residue of both lengths modulo 4 occurs; every length 10..8300 (and 16 Ki +-1, 64 Ki +-1, 70001, 200000, 1 Mi +-1, 3 Mi) for ASCII and a 2-byte/1-byte character under 1252 and UTF-8. distinct_nontrivial = E1 states");
    rep.sample(json!({"cp": cases[37].cp, "prop": format!("{:?}", cases[37].prop), "text": cases[37].text}));
    rep.finish()
}

pub fn replay(doc: &serde_json::Value) {
    let cp = doc["cp"].as_i64().unwrap() as i32;
    let text = doc["text"].as_str().unwrap().to_string();
    let prop = PROPS.iter().find(|p| format!("{:?}", p) == doc["prop"].as_str().unwrap()).cloned().unwrap();
    for (s, d) in run_case(&Case { cp, prop, text, class: "replay".into() }) {
        println!("{}: {}", s, d);
    }
}

//! C12 — joins and projections produce the documented row combinations.
//! E2: all select trees up to a depth over two base tables x all small table
//! contents, against a reference nested-loop evaluator (DESIGN.md appendix C).

use crate::ops::{Harness, Op, Outcome};
use crate::report::{catch, panic_site, Report, Tier};
use crate::spec::{ColSpec, Ty};
use crate::val::{ref_eval, Bin, Sel, Val, E};
use rayon::prelude::*;
use serde_json::json;
use std::collections::BTreeSet;

#[derive(Clone, Debug)]
struct RefTable {
    /// None = anonymous
    name: Option<String>,
    cols: Vec<(String, bool)>, // (name, nullable)
    rows: Vec<Vec<Val>>,
}

#[derive(Debug)]
enum RefErr {
    /// the call must return an error
    Err,
    /// the documentation leaves the result open (ambiguous column name,
    /// condition of unspecified value): only totality is demanded
    Unspecified,
}

struct Db {
    a: Vec<Vec<Val>>,
    b: Vec<Vec<Val>>,
    /// table C(k, s) of the string-join group; None = the table does not exist
    c: Option<Vec<Vec<Val>>>,
}

fn lookup(cols: &[(String, bool)], name: &str) -> Result<usize, RefErr> {
    let hits: Vec<usize> = cols.iter().enumerate().filter(|(_, c)| c.0 == name).map(|(i, _)| i).collect();
    match hits.len() {
        0 => Err(RefErr::Err),
        1 => Ok(hits[0]),
        _ => Err(RefErr::Unspecified),
    }
}

fn check_cond(cols: &[(String, bool)], e: &E) -> Result<(), RefErr> {
    let mut names = BTreeSet::new();
    e.columns(&mut names);
    let mut unspec = false;
    for n in names {
        match lookup(cols, &n) {
            Ok(_) => {}
            Err(RefErr::Err) => return Err(RefErr::Err),
            Err(RefErr::Unspecified) => unspec = true,
        }
    }
    if unspec {
        Err(RefErr::Unspecified)
    } else {
        Ok(())
    }
}

fn truth(cols: &[(String, bool)], row: &[Val], e: &E) -> Result<bool, RefErr> {
    let look = |n: &str| -> Val { cols.iter().position(|c| c.0 == n).map(|i| row[i].clone()).unwrap_or(Val::Null) };
    let vals = ref_eval(e, &look);
    let ts: BTreeSet<bool> = vals.iter().map(|v| v.truthy()).collect();
    if ts.len() == 1 {
        Ok(*ts.iter().next().unwrap())
    } else {
        Err(RefErr::Unspecified)
    }
}

fn ref_select(db: &Db, s: &Sel) -> Result<RefTable, RefErr> {
    match s {
        Sel::Table(t) => match t.as_str() {
            "A" => Ok(RefTable { name: Some("A".into()), cols: vec![("x".into(), false), ("y".into(), true)], rows: db.a.clone() }),
            "B" => Ok(RefTable { name: Some("B".into()), cols: vec![("u".into(), false), ("v.w".into(), true)], rows: db.b.clone() }),
            "C" if db.c.is_some() => Ok(RefTable { name: Some("C".into()), cols: vec![("k".into(), false), ("g".into(), false), ("s".into(), true)], rows: db.c.clone().unwrap() }),
            _ => Err(RefErr::Err),
        },
        Sel::Wrap { from, cols, cond } => {
            let t = ref_select(db, from)?;
            let mut idx = Vec::new();
            let mut unspec = false;
            for c in cols {
                match lookup(&t.cols, c) {
                    Ok(i) => idx.push(i),
                    Err(RefErr::Err) => return Err(RefErr::Err),
                    Err(RefErr::Unspecified) => unspec = true,
                }
            }
            if let Some(c) = cond {
                match check_cond(&t.cols, c) {
                    Ok(()) => {}
                    Err(RefErr::Err) => return Err(RefErr::Err),
                    Err(RefErr::Unspecified) => unspec = true,
                }
            }
            if unspec {
                return Err(RefErr::Unspecified);
            }
            let mut rows = Vec::new();
            for r in &t.rows {
                let keep = match cond {
                    None => true,
                    Some(c) => truth(&t.cols, r, c)?,
                };
                if keep {
                    rows.push(r.clone());
                }
            }
            if idx.is_empty() {
                Ok(RefTable { name: t.name, cols: t.cols, rows })
            } else {
                Ok(RefTable {
                    name: None,
                    cols: idx.iter().map(|&i| t.cols[i].clone()).collect(),
                    rows: rows.into_iter().map(|r| idx.iter().map(|&i| r[i].clone()).collect()).collect(),
                })
            }
        }
        Sel::Inner(l, r, on) | Sel::Left(l, r, on) => {
            let left = matches!(s, Sel::Left(..));
            let lt = ref_select(db, l)?;
            let rt = ref_select(db, r)?;
            let pre = |t: &RefTable, force_nullable: bool| -> Vec<(String, bool)> {
                t.cols
                    .iter()
                    .map(|(n, nl)| {
                        let name = match &t.name {
                            Some(tn) => format!("{}.{}", tn, n),
                            None => n.clone(),
                        };
                        (name, *nl || force_nullable)
                    })
                    .collect()
            };
            let mut cols = pre(&lt, false);
            cols.extend(pre(&rt, left));
            check_cond(&cols, on)?;
            let mut rows = Vec::new();
            for a in &lt.rows {
                let mut any = false;
                for b in &rt.rows {
                    let mut row = a.clone();
                    row.extend(b.iter().cloned());
                    if truth(&cols, &row, on)? {
                        rows.push(row);
                        any = true;
                    }
                }
                if left && !any {
                    let mut row = a.clone();
                    row.extend(rt.cols.iter().map(|_| Val::Null));
                    rows.push(row);
                }
            }
            Ok(RefTable { name: None, cols, rows })
        }
    }
}

fn contents_a(tier: Tier) -> Vec<Vec<Vec<Val>>> {
    let ys = [Val::Null, Val::Int(1), Val::Int(2)];
    let mut out = vec![vec![]];
    for x in [1, 2] {
        for y in &ys {
            out.push(vec![vec![Val::Int(x), y.clone()]]);
        }
    }
    for y1 in &ys {
        for y2 in &ys {
            out.push(vec![vec![Val::Int(1), y1.clone()], vec![Val::Int(2), y2.clone()]]);
        }
    }
    if !tier.thorough() {
        // quick: empty, one row, and the pairs that contain a null and a match
        return vec![out[0].clone(), out[2].clone(), out[8].clone(), out[12].clone()];
    }
    out
}

fn contents_b(tier: Tier) -> Vec<Vec<Vec<Val>>> {
    let vs = [Val::Null, Val::s("1"), Val::s("a")];
    let mut out = vec![vec![]];
    for u in [1, 2] {
        for v in &vs {
            out.push(vec![vec![Val::Int(u), v.clone()]]);
        }
    }
    for v1 in &vs {
        for v2 in &vs {
            out.push(vec![vec![Val::Int(1), v1.clone()], vec![Val::Int(2), v2.clone()]]);
        }
    }
    if !tier.thorough() {
        return vec![out[0].clone(), out[1].clone(), out[9].clone(), out[14].clone()];
    }
    out
}

/// Result-column names of a select tree (for building conditions).
fn col_names(s: &Sel) -> (Option<String>, Vec<String>) {
    match s {
        Sel::Table(t) if t == "A" => (Some("A".into()), vec!["x".into(), "y".into()]),
        Sel::Table(t) if t == "B" => (Some("B".into()), vec!["u".into(), "v.w".into()]),
        Sel::Table(t) if t == "C" => (Some("C".into()), vec!["k".into(), "g".into(), "s".into()]),
        Sel::Table(_) => (None, vec![]),
        Sel::Wrap { from, cols, .. } => {
            let (n, c) = col_names(from);
            if cols.is_empty() {
                (n, c)
            } else {
                (None, cols.clone())
            }
        }
        Sel::Inner(l, r, _) | Sel::Left(l, r, _) => {
            let f = |s: &Sel| -> Vec<String> {
                let (n, c) = col_names(s);
                c.into_iter().map(|x| match &n { Some(t) => format!("{}.{}", t, x), None => x }).collect()
            };
            let mut v = f(l);
            v.extend(f(r));
            (None, v)
        }
    }
}

fn wraps(x: &Sel) -> Vec<Sel> {
    let (_, cols) = col_names(x);
    if cols.is_empty() {
        return vec![];
    }
    let first = cols[0].clone();
    let last = cols[cols.len() - 1].clone();
    let cond = E::bin(Bin::Eq, E::col(&first), E::int(1));
    let mut out = Vec::new();
    for proj in [vec![], vec![first.clone()], vec![last.clone(), first.clone()]] {
        for c in [None, Some(cond.clone())] {
            if proj.is_empty() && c.is_none() {
                continue;
            }
            out.push(Sel::Wrap { from: Box::new(x.clone()), cols: proj.clone(), cond: c });
        }
    }
    // unknown names
    out.push(Sel::Wrap { from: Box::new(x.clone()), cols: vec!["nope".into()], cond: None });
    out.push(Sel::Wrap { from: Box::new(x.clone()), cols: vec![], cond: Some(E::bin(Bin::Eq, E::col("nope"), E::int(1))) });
    // names that differ from a real column only in letter case are unknown
    let flipped: String = first.chars().map(|c| if c.is_ascii_lowercase() { c.to_ascii_uppercase() } else { c.to_ascii_lowercase() }).collect();
    if flipped != first {
        out.push(Sel::Wrap { from: Box::new(x.clone()), cols: vec![flipped.clone()], cond: None });
        out.push(Sel::Wrap { from: Box::new(x.clone()), cols: vec![], cond: Some(E::bin(Bin::Eq, E::col(&flipped), E::int(1))) });
    }
    out.push(Sel::Wrap { from: Box::new(x.clone()), cols: vec![], cond: Some(E::bin(Bin::Or, E::int(1), E::bin(Bin::Eq, E::col("nope"), E::int(1)))) });
    out.push(Sel::Wrap { from: Box::new(x.clone()), cols: vec![], cond: Some(E::bin(Bin::And, E::null(), E::col("nope"))) });
    out
}

fn on_conditions(l: &Sel, r: &Sel) -> Vec<E> {
    let f = |s: &Sel| -> Vec<String> {
        let (n, c) = col_names(s);
        c.into_iter().map(|x| match &n { Some(t) => format!("{}.{}", t, x), None => x }).collect()
    };
    let lc = f(l);
    let rc = f(r);
    let mut out = vec![E::int(1), E::int(0), E::null(), E::bin(Bin::Eq, E::col("nope.nope"), E::int(1))];
    if let (Some(lk), Some(rk)) = (lc.first(), rc.first()) {
        out.push(E::bin(Bin::Eq, E::col(lk), E::col(rk)));
        out.push(E::bin(Bin::Lt, E::col(lk), E::col(rk)));
    }
    if let (Some(ln), Some(rn)) = (lc.last(), rc.last()) {
        out.push(E::bin(Bin::Eq, E::col(ln), E::col(rn)));
    }
    if let (Some(lk), Some(rk)) = (lc.first(), rc.first()) {
        let flip = |s: &String| -> String { s.chars().map(|c| if c.is_ascii_lowercase() { c.to_ascii_uppercase() } else { c.to_ascii_lowercase() }).collect() };
        if flip(rk) != *rk {
            out.push(E::bin(Bin::Eq, E::col(lk), E::col(&flip(rk))));
        }
    }
    // an unknown column behind an operand that decides the result alone
    if let Some(lk) = lc.first() {
        out.push(E::bin(Bin::Or, E::int(1), E::bin(Bin::Eq, E::col(lk), E::col("nope.nope"))));
        out.push(E::bin(Bin::And, E::int(0), E::bin(Bin::Eq, E::col("nope.nope"), E::col(lk))));
    }
    out
}

fn trees(tier: Tier) -> Vec<Sel> {
    let base = vec![Sel::table("A"), Sel::table("B")];
    let mut ops1: Vec<Sel> = base.clone();
    for b in &base {
        ops1.extend(wraps(b));
    }
    let mut out: Vec<Sel> = ops1.clone();
    out.push(Sel::table("Nope"));
    let mut joins1 = Vec::new();
    for l in &ops1 {
        for r in &ops1 {
            for on in on_conditions(l, r) {
                joins1.push(Sel::Inner(Box::new(l.clone()), Box::new(r.clone()), on.clone()));
                joins1.push(Sel::Left(Box::new(l.clone()), Box::new(r.clone()), on));
            }
        }
    }
    out.extend(joins1.iter().cloned());
    // joins with an unknown table on either side
    out.push(Sel::Inner(Box::new(Sel::table("Nope")), Box::new(Sel::table("A")), E::int(1)));
    out.push(Sel::Left(Box::new(Sel::table("A")), Box::new(Sel::table("Nope")), E::int(1)));
    // depth 2: wrapped joins and joins of joins
    let plain_joins: Vec<&Sel> = joins1
        .iter()
        .filter(|j| match j {
            Sel::Inner(l, r, _) | Sel::Left(l, r, _) => matches!(**l, Sel::Table(_)) && matches!(**r, Sel::Table(_)),
            _ => false,
        })
        .collect();
    let mut ops2: Vec<Sel> = Vec::new();
    for j in &plain_joins {
        ops2.push((*j).clone());
        for w in wraps(j) {
            out.push(w.clone());
            ops2.push(w);
        }
    }
    let step = if tier.thorough() { 1 } else { 3 };
    let others: Vec<Sel> = if tier.thorough() { ops1.clone() } else { vec![ops1[0].clone(), ops1[1].clone(), ops1[3].clone(), ops1[9].clone()] };
    for l in ops2.iter().step_by(step) {
        for r in &others {
            for on in on_conditions(l, r) {
                out.push(Sel::Inner(Box::new(l.clone()), Box::new(r.clone()), on.clone()));
                out.push(Sel::Left(Box::new(r.clone()), Box::new(l.clone()), on));
            }
        }
    }
    if tier.thorough() {
        // depth 3: join of two joins
        for l in ops2.iter().step_by(5) {
            for r in ops2.iter().step_by(7) {
                for on in on_conditions(l, r).into_iter().take(6) {
                    out.push(Sel::Left(Box::new(l.clone()), Box::new(r.clone()), on.clone()));
                    out.push(Sel::Inner(Box::new(l.clone()), Box::new(r.clone()), on));
                }
            }
        }
    }
    out
}

fn shape(s: &Sel) -> String {
    match s {
        Sel::Table(_) => "T".into(),
        Sel::Wrap { from, cols, cond } => format!("W{}{}({})", if cols.is_empty() { "" } else { "p" }, if cond.is_some() { "f" } else { "" }, shape(from)),
        Sel::Inner(l, r, _) => format!("I({},{})", shape(l), shape(r)),
        Sel::Left(l, r, _) => format!("L({},{})", shape(l), shape(r)),
    }
}

fn top_kind(s: &Sel) -> &'static str {
    match s {
        Sel::Table(_) => "table",
        Sel::Wrap { .. } => "select",
        Sel::Inner(..) => "inner-join",
        Sel::Left(..) => "left-join",
    }
}

/// Runs one select tree on the package and compares it with the reference.
/// Ok(class): 0 compared row by row, 1 must fail and failed, 2 unspecified.
/// Err((signature, detail, fatal)).
fn eval_tree(h: &mut Harness, db: &Db, t: &Sel) -> Result<usize, (String, String, bool)> {
    let want = ref_select(db, t);
    let got = catch(|| match h.p().select_rows(t.to_msi()) {
        Err(e) => Err(format!("{:?}", e.kind())),
        Ok(rows) => {
            let reported = rows.len();
            let cols: Vec<(String, bool)> = rows.columns().iter().map(|c| (c.name().to_string(), c.is_nullable())).collect();
            let hint = rows.size_hint();
            let mut v: Vec<Vec<Val>> = Vec::new();
            for r in rows {
                let by_pos: Vec<Val> = (0..r.len()).map(|i| Val::from_msi(&r[i])).collect();
                // result cells by (unambiguous) column name
                for (i, (name, _)) in cols.iter().enumerate() {
                    if cols.iter().filter(|c| c.0 == *name).count() != 1 {
                        continue;
                    }
                    if !r.has_column(name) {
                        panic!("ACCESSORS DISAGREE: has_column({:?}) is false for a result column", name);
                    }
                    let by_name = Val::from_msi(&r[name.as_str()]);
                    if by_name != by_pos[i] {
                        panic!("ACCESSORS DISAGREE: result cell {} is {} by position and {} by the name {:?}", i, by_pos[i].show(), by_name.show(), name);
                    }
                }
                v.push(by_pos);
            }
            if hint.0 > v.len() || hint.1.map(|h| h < v.len()).unwrap_or(false) {
                panic!("ACCESSORS DISAGREE: size_hint {:?} but {} rows", hint, v.len());
            }
            Ok((cols, v, reported))
        }
    });
    let mut ctx = format!("A={} B={}", crate::snapshot::show_rows(&Ok(db.a.clone())), crate::snapshot::show_rows(&Ok(db.b.clone())));
    if let Some(c) = &db.c {
        ctx.push_str(&format!(" C={}", crate::snapshot::show_rows(&Ok(c.clone()))));
    }
    match got {
        Err(p) => Err((format!("panic:{}:{}", top_kind(t), panic_site(&p)), format!("{} panicked: {} [{}]", t.show(), p, ctx), true)),
        Ok(got) => match (want, got) {
            (Err(RefErr::Unspecified), _) => Ok(2),
            (Err(RefErr::Err), Err(_)) => Ok(1),
            (Err(RefErr::Err), Ok(_)) => Err((format!("accepted-unknown-name:{}", top_kind(t)), format!("{} must be an error (unknown table or column) but returned rows [{}]", t.show(), ctx), false)),
            (Ok(_), Err(e)) => Err((format!("refused-valid:{}", top_kind(t)), format!("{} failed with {} [{}]", t.show(), e, ctx), false)),
            (Ok(w), Ok((cols, rows, reported))) => {
                let wn: Vec<&String> = w.cols.iter().map(|c| &c.0).collect();
                let gn: Vec<&String> = cols.iter().map(|c| &c.0).collect();
                if wn != gn {
                    Err((format!("column-names:{}", top_kind(t)), format!("{} has columns {:?}, expected {:?}", t.show(), gn, wn), false))
                } else if rows != w.rows {
                    Err((format!("rows:{}", top_kind(t)), format!("{} returned {} expected {} [{}]", t.show(), crate::snapshot::show_rows(&Ok(rows)), crate::snapshot::show_rows(&Ok(w.rows.clone())), ctx), false))
                } else if reported != w.rows.len() {
                    Err((format!("reported-length:{}", top_kind(t)), format!("{} reported {} rows, yielded {}", t.show(), reported, w.rows.len()), false))
                } else if matches!(t, Sel::Left(..)) && w.cols.iter().zip(cols.iter()).any(|(a, b)| a.1 && !b.1) {
                    Err(("left-join-nullability".into(), format!("{}: a right-hand column is not marked nullable: {:?}", t.show(), cols), false))
                } else {
                    Ok(0)
                }
            }
        },
    }
}

// ------------------------------------------------------------------------- //
// String joins on packages with a history: the same text can sit in several
// string-pool entries (entries freed by a delete are re-used before an
// existing entry is looked up; foreign files may store a string twice), and
// equality in conditions is equality of text.
// ------------------------------------------------------------------------- //

const MODES: [&str; 7] = ["direct", "holes-then-C", "holes-then-B", "holes-then-C+reopen", "encoded-with-duplicate-pool-entries", "placeholders-updated", "delete-and-reinsert"];

fn string_contents(tier: Tier) -> Vec<Vec<Vec<Val>>> {
    let vs = [Val::Null, Val::s("1"), Val::s("a")];
    let mut out = vec![vec![]];
    for v in &vs {
        out.push(vec![vec![Val::Int(1), v.clone()]]);
    }
    for v1 in &vs {
        for v2 in &vs {
            out.push(vec![vec![Val::Int(1), v1.clone()], vec![Val::Int(2), v2.clone()]]);
        }
    }
    if !tier.thorough() {
        return vec![out[0].clone(), out[3].clone(), out[6].clone(), out[11].clone(), out[12].clone()];
    }
    out
}

fn string_trees() -> Vec<Sel> {
    let (bs, cs, bk, ck) = ("B.v.w", "C.s", "B.u", "C.k");
    let eq = |a: &str, b: &str| E::bin(Bin::Eq, E::col(a), E::col(b));
    let ons = vec![
        eq(bs, cs),
        eq(cs, bs),
        E::bin(Bin::Ne, E::col(bs), E::col(cs)),
        E::bin(Bin::Lt, E::col(bs), E::col(cs)),
        E::bin(Bin::And, eq(bs, cs), eq(bk, ck)),
        E::bin(Bin::Or, eq(bs, cs), eq(bk, ck)),
        eq(bk, ck),
    ];
    let mut out = Vec::new();
    for (l, r) in [("B", "C"), ("C", "B")] {
        for on in &ons {
            out.push(Sel::Inner(Box::new(Sel::table(l)), Box::new(Sel::table(r)), on.clone()));
            out.push(Sel::Left(Box::new(Sel::table(l)), Box::new(Sel::table(r)), on.clone()));
        }
    }
    let w = |from: Sel, cols: &[&str], cond: Option<E>| Sel::Wrap { from: Box::new(from), cols: cols.iter().map(|c| c.to_string()).collect(), cond };
    // filters against literals
    out.push(w(Sel::table("C"), &[], Some(E::bin(Bin::Eq, E::col("s"), E::str("a")))));
    out.push(w(Sel::table("B"), &[], Some(E::bin(Bin::Eq, E::col("v.w"), E::str("1")))));
    out.push(w(Sel::table("C"), &["s"], Some(E::bin(Bin::Ne, E::col("s"), E::str("a")))));
    // projected operands (anonymous columns), self-join through a projection
    out.push(Sel::Inner(Box::new(w(Sel::table("B"), &["v.w", "u"], None)), Box::new(Sel::table("C")), eq("v.w", cs)));
    out.push(Sel::Left(Box::new(Sel::table("C")), Box::new(w(Sel::table("B"), &["v.w"], None)), eq(cs, "v.w")));
    out.push(Sel::Inner(Box::new(w(Sel::table("C"), &["s"], None)), Box::new(Sel::table("C")), eq("s", cs)));
    out.push(Sel::Left(Box::new(w(Sel::table("B"), &["v.w"], None)), Box::new(Sel::table("B")), eq("v.w", bs)));
    // equality between two columns of one result row, as a filter
    out.push(w(Sel::Inner(Box::new(Sel::table("B")), Box::new(Sel::table("C")), eq(bk, ck)), &[], Some(eq(bs, cs))));
    out.push(w(Sel::Left(Box::new(Sel::table("B")), Box::new(Sel::table("C")), E::int(1)), &[cs, bs], Some(eq(cs, bs))));
    // join of a join
    out.push(Sel::Inner(Box::new(Sel::Inner(Box::new(Sel::table("B")), Box::new(Sel::table("C")), eq(bs, cs))), Box::new(Sel::table("A")), E::bin(Bin::Eq, E::col("C.k"), E::col("A.x"))));
    out
}

fn string_db_package(db: &Db, mode: usize) -> Result<Harness, String> {
    let a_cols = vec![ColSpec::new("x", Ty::I16).key(), ColSpec::new("y", Ty::I16).nullable()];
    let b_cols = vec![ColSpec::new("u", Ty::I16).key(), ColSpec::new("v.w", Ty::Str(4)).nullable()];
    // composite key (k, g): a join on C.k alone meets several rows per value
    let c_cols = vec![ColSpec::new("k", Ty::I16).key(), ColSpec::new("g", Ty::I16).key(), ColSpec::new("s", Ty::Str(4)).nullable()];
    let b = db.b.clone();
    let c = db.c.clone().unwrap();
    if mode == 4 {
        use crate::enc::{default_summary, encode, EncCol, EncDb, EncTable, PoolStyle, RowOrder};
        let t = |name: &str, cols: &Vec<ColSpec>, rows: &Vec<Vec<Val>>| EncTable { name: name.into(), cols: cols.iter().map(|c| EncCol { spec: c.clone(), width1_quirk: false }).collect(), rows: rows.clone() };
        let enc = EncDb {
            ptype: 0,
            codepage_id: 0,
            long_refs: false,
            pool_style: PoolStyle::Duplicates,
            with_validation: true,
            row_order: RowOrder::Ascending,
            tables: vec![t("A", &a_cols, &db.a), t("B", &b_cols, &b), t("C", &c_cols, &c)],
            streams: vec![],
            summary: default_summary(),
            extra_pool_strings: vec![],
            ghost_strings: vec![],
        };
        return Harness::open(encode(&enc));
    }
    let mut h = Harness::create(0)?;
    let mut ops: Vec<Op> = vec![
        Op::CreateTable { name: "A".into(), cols: a_cols },
        Op::CreateTable { name: "B".into(), cols: b_cols },
        Op::CreateTable { name: "C".into(), cols: c_cols },
        Op::Insert { table: "A".into(), rows: db.a.clone() },
    ];
    let scratch = vec![
        Op::CreateTable { name: "S".into(), cols: vec![ColSpec::new("k", Ty::I16).key(), ColSpec::new("t", Ty::Str(8)).nullable()] },
        Op::Insert { table: "S".into(), rows: vec![vec![Val::Int(1), Val::s("p")], vec![Val::Int(2), Val::s("q")], vec![Val::Int(3), Val::s("r")]] },
    ];
    let free = Op::Delete { table: "S".into(), cond: None };
    let ins = |t: &str, rows: &Vec<Vec<Val>>| Op::Insert { table: t.into(), rows: rows.clone() };
    match mode {
        0 => {
            ops.push(ins("B", &b));
            ops.push(ins("C", &c));
        }
        1 | 3 => {
            ops.extend(scratch);
            ops.push(ins("B", &b));
            ops.push(free);
            ops.push(ins("C", &c));
            if mode == 3 {
                ops.push(Op::Reopen);
            }
        }
        2 => {
            ops.extend(scratch);
            ops.push(ins("C", &c));
            ops.push(free);
            ops.push(ins("B", &b));
        }
        5 => {
            // rows inserted with placeholder texts, then updated to the target
            let ph = |rows: &Vec<Vec<Val>>, tag: &str| -> Vec<Vec<Val>> {
                rows.iter()
                    .enumerate()
                    .map(|(i, r)| {
                        let mut v = r.clone();
                        let last = v.len() - 1;
                        v[last] = Val::s(&format!("{}{}", tag, i));
                        v
                    })
                    .collect()
            };
            ops.push(ins("B", &ph(&b, "b")));
            ops.push(ins("C", &ph(&c, "c")));
            for r in b.iter() {
                ops.push(Op::Update { table: "B".into(), sets: vec![("v.w".into(), r[1].clone())], cond: Some(E::bin(Bin::Eq, E::col("u"), E::Lit(r[0].clone()))) });
            }
            for r in c.iter() {
                let cond = E::bin(Bin::And, E::bin(Bin::Eq, E::col("k"), E::Lit(r[0].clone())), E::bin(Bin::Eq, E::col("g"), E::Lit(r[1].clone())));
                ops.push(Op::Update { table: "C".into(), sets: vec![("s".into(), r[2].clone())], cond: Some(cond) });
            }
        }
        _ => {
            // everything inserted, B deleted and inserted again
            ops.push(ins("B", &b));
            ops.push(ins("C", &c));
            ops.push(Op::Delete { table: "B".into(), cond: None });
            ops.push(ins("B", &b));
        }
    }
    for op in &ops {
        if let Op::Insert { rows, .. } = op {
            if rows.is_empty() {
                continue;
            }
        }
        match h.apply(op) {
            Outcome::Ok => {}
            o => return Err(format!("setup step {} -> {:?}", op.show(), o)),
        }
    }
    Ok(h)
}

/// (evaluations, compared row by row, violations)
fn string_join_group(tier: Tier) -> (u64, u64, Vec<(String, String, serde_json::Value)>) {
    let cont = string_contents(tier);
    let trees = string_trees();
    let a_rows = vec![vec![Val::Int(1), Val::Int(2)], vec![Val::Int(2), Val::Null]];
    // C(k, g, s) from the same (key, string) rows: distinct k (g = 1), or the
    // same k for every row (k = 1, g = 1, 2, ...)
    let c_variants = |rows: &Vec<Vec<Val>>| -> Vec<Vec<Vec<Val>>> {
        let distinct: Vec<Vec<Val>> = rows.iter().map(|r| vec![r[0].clone(), Val::Int(1), r[1].clone()]).collect();
        let repeated: Vec<Vec<Val>> = rows.iter().map(|r| vec![Val::Int(1), r[0].clone(), r[1].clone()]).collect();
        if rows.len() > 1 {
            vec![distinct, repeated]
        } else {
            vec![distinct]
        }
    };
    let mut jobs: Vec<(usize, Vec<Vec<Val>>, usize)> = Vec::new();
    for ib in 0..cont.len() {
        for ic in 0..cont.len() {
            for cv in c_variants(&cont[ic]) {
                for m in 0..MODES.len() {
                    jobs.push((ib, cv.clone(), m));
                }
            }
        }
    }
    let results: Vec<(u64, u64, Vec<(String, String, serde_json::Value)>)> = jobs
        .par_iter()
        .map(|(ib, ic, m)| {
            let db = Db { a: a_rows.clone(), b: cont[*ib].clone(), c: Some(ic.clone()) };
            let doc = |t: Option<&Sel>| json!({"kind":"c12-strings","mode":m,"b":db.b,"c":db.c,"tree":t});
            let mut h = match string_db_package(&db, *m) {
                Ok(h) => h,
                Err(e) => return (0, 0, vec![(format!("string-joins:setup:{}", MODES[*m]), format!("building B={:?} C={:?} in mode {}: {}", db.b, db.c, MODES[*m], e), doc(None))]),
            };
            let mut n = 0;
            let mut compared = 0;
            let mut vs = Vec::new();
            for t in &trees {
                n += 1;
                match eval_tree(&mut h, &db, t) {
                    Ok(0) => compared += 1,
                    Ok(_) => {}
                    Err((sig, detail, fatal)) => {
                        vs.push((format!("string-joins:{}:{}", MODES[*m], sig), format!("[tables built in mode {}] {}", MODES[*m], detail), doc(Some(t))));
                        if fatal {
                            break;
                        }
                    }
                }
            }
            (n, compared, vs)
        })
        .collect();
    let mut n = 0;
    let mut compared = 0;
    let mut vs = Vec::new();
    for (a, b, v) in results {
        n += a;
        compared += b;
        vs.extend(v);
    }
    (n, compared, vs)
}

pub fn run(tier: Tier) -> i32 {
    let mut rep = Report::new("C12", tier, "model_checking");
    rep.assume("reference semantics of DESIGN.md appendix C; a column name that matches two result columns (self-join) is unspecified: only totality is demanded there");
    let ts = trees(tier);
    let ca = contents_a(tier);
    let cb = contents_b(tier);
    let combos: Vec<(usize, usize)> = (0..ca.len()).flat_map(|i| (0..cb.len()).map(move |j| (i, j))).collect();
    let results: Vec<(u64, [u64; 4], Vec<(String, String, usize)>)> = combos
        .par_iter()
        .map(|(ia, ib)| {
            let db = Db { a: ca[*ia].clone(), b: cb[*ib].clone(), c: None };
            let mut h = Harness::create(0).expect("create");
            let setup = [
                Op::CreateTable { name: "A".into(), cols: vec![ColSpec::new("x", Ty::I16).key(), ColSpec::new("y", Ty::I16).nullable()] },
                Op::CreateTable { name: "B".into(), cols: vec![ColSpec::new("u", Ty::I16).key(), ColSpec::new("v.w", Ty::Str(4)).nullable()] },
                Op::Insert { table: "A".into(), rows: db.a.clone() },
                Op::Insert { table: "B".into(), rows: db.b.clone() },
            ];
            for op in &setup {
                if let Op::Insert { rows, .. } = op {
                    if rows.is_empty() {
                        continue;
                    }
                }
                assert!(matches!(h.apply(op), Outcome::Ok), "setup {:?}", op.show());
            }
            let mut n = 0u64;
            let mut classes = [0u64; 4];
            let mut vs = Vec::new();
            for (ti, t) in ts.iter().enumerate() {
                n += 1;
                match eval_tree(&mut h, &db, t) {
                    Ok(class) => classes[class] += 1,
                    Err((sig, detail, fatal)) => {
                        vs.push((sig, detail, ti));
                        if fatal {
                            classes[3] += 1;
                            // the container lock may be poisoned now
                            break;
                        }
                    }
                }
            }
            (n, classes, vs)
        })
        .collect();
    let mut total = 0u64;
    let mut classes = [0u64; 4];
    for (n, c, vs) in results {
        total += n;
        for i in 0..4 {
            classes[i] += c[i];
        }
        for (sig, d, ti) in vs {
            rep.violation(sig, d, json!({"kind":"c12","tree":ts[ti]}));
        }
    }
    let (sn, scompared, svs) = string_join_group(tier);
    for (sig, d, doc) in svs {
        rep.violation(sig, d, doc);
    }
    total += sn;
    classes[0] += scompared;
    rep.set("string_join_evaluations", sn);
    rep.set("string_join_construction_modes", MODES.len());
    let shapes: BTreeSet<String> = ts.iter().map(shape).collect();
    rep.set("states", total);
    rep.set("transitions", total);
    rep.set("traces_validated_against_impl", total);
    rep.set("evaluations", total);
    rep.set("distinct_nontrivial", classes[0]);
    rep.set("select_trees", ts.len());
    rep.set("distinct_tree_shapes", shapes.len());
    rep.set("table_contents", combos.len());
    rep.set("results_compared_row_by_row", classes[0]);
    rep.set("must_fail_and_failed", classes[1]);
    rep.set("unspecified_ambiguous_name", classes[2]);
    rep.set("exhaustive", true);
    rep.set("rule", "every select tree of the tier's family (tables, filters, projections, inner and left joins, self-joins, wrapped joins, joins of joins; join conditions: key equality, key order, nullable = nullable, TRUE, FALSE, NULL, unknown column; unknown tables and columns in every position) x every content of A(x,y) and B(u,v) in the tier's set (thorough: all 16 x 16 contents with <= 2 rows over {null,1,2}), compared with a reference nested-loop evaluator: Ok/Err, column names, rows in order, reported length, nullability of the right side of a left join. distinct_nontrivial = (tree, content) pairs compared row by row. String-join group: joins and filters on string equality / order between B(u, v.w) and C(k, g, s) with the composite key (k, g), so that joins on C.k meet several rows per value, (+ projections, self-joins, a join of a join) x table contents over {null,'1','a'} x 7 ways of building the same contents (direct; re-using pool entries freed by a delete, in both table orders, also reopened; an independently encoded file whose pool stores strings twice; placeholders then updates; delete and re-insert)");
    rep.sample(json!({"tree": ts[ts.len() / 2].show()}));
    rep.sample(json!({"tree": ts[ts.len() - 1].show()}));
    rep.finish()
}

pub fn replay(doc: &serde_json::Value) {
    if doc["kind"] == "c12-strings" {
        let db = Db { a: vec![vec![Val::Int(1), Val::Int(2)], vec![Val::Int(2), Val::Null]], b: serde_json::from_value(doc["b"].clone()).unwrap(), c: serde_json::from_value(doc["c"].clone()).unwrap() };
        let mode = doc["mode"].as_u64().unwrap() as usize;
        println!("tables built in mode {}: B={:?} C={:?}", MODES[mode], db.b, db.c);
        match string_db_package(&db, mode) {
            Err(e) => println!("setup: {}", e),
            Ok(mut h) => {
                if let Ok(t) = serde_json::from_value::<Sel>(doc["tree"].clone()) {
                    println!("tree: {}", t.show());
                    println!("verdict: {:?}", eval_tree(&mut h, &db, &t));
                }
            }
        }
        return;
    }
    let t: Sel = serde_json::from_value(doc["tree"].clone()).unwrap();
    println!("tree: {}", t.show());
    println!("text: {:?}", catch(|| t.to_msi().to_string()));
    let db = Db { a: vec![vec![Val::Int(1), Val::Int(1)], vec![Val::Int(2), Val::Null]], b: vec![vec![Val::Int(1), Val::s("a")]], c: None };
    let mut h = Harness::create(0).expect("create");
    for op in [
        Op::CreateTable { name: "A".into(), cols: vec![ColSpec::new("x", Ty::I16).key(), ColSpec::new("y", Ty::I16).nullable()] },
        Op::CreateTable { name: "B".into(), cols: vec![ColSpec::new("u", Ty::I16).key(), ColSpec::new("v.w", Ty::Str(4)).nullable()] },
        Op::Insert { table: "A".into(), rows: db.a.clone() },
        Op::Insert { table: "B".into(), rows: db.b.clone() },
    ] {
        h.apply(&op);
    }
    println!("reference: {:?}", ref_select(&db, &t).map(|r| (r.cols, r.rows)));
    let got = catch(|| h.p().select_rows(t.to_msi()).map(|rows| rows.map(|r| (0..r.len()).map(|i| Val::from_msi(&r[i])).collect::<Vec<_>>()).collect::<Vec<_>>()).map_err(|e| e.to_string()));
    println!("library: {:?}", got);
}

//! C12 — joins and projections produce the documented row combinations.
//! E2: all select trees up to a depth over two base tables x all small table
//! contents, against a reference nested-loop evaluator (DESIGN.md appendix C).

use crate::ops::{Harness, Op, Outcome};
use crate::report::{catch, panic_site, Report, Tier};
use crate::spec::{ColSpec, Ty};
use crate::val::{ref_eval, Bin, Sel, Val, E};
use rayon::prelude::*;
use serde_json::json;
use std::collections::BTreeSet;

#[derive(Clone, Debug)]
struct RefTable {
    /// None = anonymous
    name: Option<String>,
    cols: Vec<(String, bool)>, // (name, nullable)
    rows: Vec<Vec<Val>>,
}

#[derive(Debug)]
enum RefErr {
    /// the call must return an error
    Err,
    /// the documentation leaves the result open (ambiguous column name,
    /// condition of unspecified value): only totality is demanded
    Unspecified,
}

struct Db {
    a: Vec<Vec<Val>>,
    b: Vec<Vec<Val>>,
}

fn lookup(cols: &[(String, bool)], name: &str) -> Result<usize, RefErr> {
    let hits: Vec<usize> = cols.iter().enumerate().filter(|(_, c)| c.0 == name).map(|(i, _)| i).collect();
    match hits.len() {
        0 => Err(RefErr::Err),
        1 => Ok(hits[0]),
        _ => Err(RefErr::Unspecified),
    }
}

fn check_cond(cols: &[(String, bool)], e: &E) -> Result<(), RefErr> {
    let mut names = BTreeSet::new();
    e.columns(&mut names);
    let mut unspec = false;
    for n in names {
        match lookup(cols, &n) {
            Ok(_) => {}
            Err(RefErr::Err) => return Err(RefErr::Err),
            Err(RefErr::Unspecified) => unspec = true,
        }
    }
    if unspec {
        Err(RefErr::Unspecified)
    } else {
        Ok(())
    }
}

fn truth(cols: &[(String, bool)], row: &[Val], e: &E) -> Result<bool, RefErr> {
    let look = |n: &str| -> Val { cols.iter().position(|c| c.0 == n).map(|i| row[i].clone()).unwrap_or(Val::Null) };
    let vals = ref_eval(e, &look);
    let ts: BTreeSet<bool> = vals.iter().map(|v| v.truthy()).collect();
    if ts.len() == 1 {
        Ok(*ts.iter().next().unwrap())
    } else {
        Err(RefErr::Unspecified)
    }
}

fn ref_select(db: &Db, s: &Sel) -> Result<RefTable, RefErr> {
    match s {
        Sel::Table(t) => match t.as_str() {
            "A" => Ok(RefTable { name: Some("A".into()), cols: vec![("x".into(), false), ("y".into(), true)], rows: db.a.clone() }),
            "B" => Ok(RefTable { name: Some("B".into()), cols: vec![("u".into(), false), ("v.w".into(), true)], rows: db.b.clone() }),
            _ => Err(RefErr::Err),
        },
        Sel::Wrap { from, cols, cond } => {
            let t = ref_select(db, from)?;
            let mut idx = Vec::new();
            let mut unspec = false;
            for c in cols {
                match lookup(&t.cols, c) {
                    Ok(i) => idx.push(i),
                    Err(RefErr::Err) => return Err(RefErr::Err),
                    Err(RefErr::Unspecified) => unspec = true,
                }
            }
            if let Some(c) = cond {
                match check_cond(&t.cols, c) {
                    Ok(()) => {}
                    Err(RefErr::Err) => return Err(RefErr::Err),
                    Err(RefErr::Unspecified) => unspec = true,
                }
            }
            if unspec {
                return Err(RefErr::Unspecified);
            }
            let mut rows = Vec::new();
            for r in &t.rows {
                let keep = match cond {
                    None => true,
                    Some(c) => truth(&t.cols, r, c)?,
                };
                if keep {
                    rows.push(r.clone());
                }
            }
            if idx.is_empty() {
                Ok(RefTable { name: t.name, cols: t.cols, rows })
            } else {
                Ok(RefTable {
                    name: None,
                    cols: idx.iter().map(|&i| t.cols[i].clone()).collect(),
                    rows: rows.into_iter().map(|r| idx.iter().map(|&i| r[i].clone()).collect()).collect(),
                })
            }
        }
        Sel::Inner(l, r, on) | Sel::Left(l, r, on) => {
            let left = matches!(s, Sel::Left(..));
            let lt = ref_select(db, l)?;
            let rt = ref_select(db, r)?;
            let pre = |t: &RefTable, force_nullable: bool| -> Vec<(String, bool)> {
                t.cols
                    .iter()
                    .map(|(n, nl)| {
                        let name = match &t.name {
                            Some(tn) => format!("{}.{}", tn, n),
                            None => n.clone(),
                        };
                        (name, *nl || force_nullable)
                    })
                    .collect()
            };
            let mut cols = pre(&lt, false);
            cols.extend(pre(&rt, left));
            check_cond(&cols, on)?;
            let mut rows = Vec::new();
            for a in &lt.rows {
                let mut any = false;
                for b in &rt.rows {
                    let mut row = a.clone();
                    row.extend(b.iter().cloned());
                    if truth(&cols, &row, on)? {
                        rows.push(row);
                        any = true;
                    }
                }
                if left && !any {
                    let mut row = a.clone();
                    row.extend(rt.cols.iter().map(|_| Val::Null));
                    rows.push(row);
                }
            }
            Ok(RefTable { name: None, cols, rows })
        }
    }
}

fn contents_a(tier: Tier) -> Vec<Vec<Vec<Val>>> {
    let ys = [Val::Null, Val::Int(1), Val::Int(2)];
    let mut out = vec![vec![]];
    for x in [1, 2] {
        for y in &ys {
            out.push(vec![vec![Val::Int(x), y.clone()]]);
        }
    }
    for y1 in &ys {
        for y2 in &ys {
            out.push(vec![vec![Val::Int(1), y1.clone()], vec![Val::Int(2), y2.clone()]]);
        }
    }
    if !tier.thorough() {
        // quick: empty, one row, and the pairs that contain a null and a match
        return vec![out[0].clone(), out[2].clone(), out[8].clone(), out[12].clone()];
    }
    out
}

fn contents_b(tier: Tier) -> Vec<Vec<Vec<Val>>> {
    let vs = [Val::Null, Val::s("1"), Val::s("a")];
    let mut out = vec![vec![]];
    for u in [1, 2] {
        for v in &vs {
            out.push(vec![vec![Val::Int(u), v.clone()]]);
        }
    }
    for v1 in &vs {
        for v2 in &vs {
            out.push(vec![vec![Val::Int(1), v1.clone()], vec![Val::Int(2), v2.clone()]]);
        }
    }
    if !tier.thorough() {
        return vec![out[0].clone(), out[1].clone(), out[9].clone(), out[14].clone()];
    }
    out
}

/// Result-column names of a select tree (for building conditions).
fn col_names(s: &Sel) -> (Option<String>, Vec<String>) {
    match s {
        Sel::Table(t) if t == "A" => (Some("A".into()), vec!["x".into(), "y".into()]),
        Sel::Table(t) if t == "B" => (Some("B".into()), vec!["u".into(), "v.w".into()]),
        Sel::Table(_) => (None, vec![]),
        Sel::Wrap { from, cols, .. } => {
            let (n, c) = col_names(from);
            if cols.is_empty() {
                (n, c)
            } else {
                (None, cols.clone())
            }
        }
        Sel::Inner(l, r, _) | Sel::Left(l, r, _) => {
            let f = |s: &Sel| -> Vec<String> {
                let (n, c) = col_names(s);
                c.into_iter().map(|x| match &n { Some(t) => format!("{}.{}", t, x), None => x }).collect()
            };
            let mut v = f(l);
            v.extend(f(r));
            (None, v)
        }
    }
}

fn wraps(x: &Sel) -> Vec<Sel> {
    let (_, cols) = col_names(x);
    if cols.is_empty() {
        return vec![];
    }
    let first = cols[0].clone();
    let last = cols[cols.len() - 1].clone();
    let cond = E::bin(Bin::Eq, E::col(&first), E::int(1));
    let mut out = Vec::new();
    for proj in [vec![], vec![first.clone()], vec![last.clone(), first.clone()]] {
        for c in [None, Some(cond.clone())] {
            if proj.is_empty() && c.is_none() {
                continue;
            }
            out.push(Sel::Wrap { from: Box::new(x.clone()), cols: proj.clone(), cond: c });
        }
    }
    // unknown names
    out.push(Sel::Wrap { from: Box::new(x.clone()), cols: vec!["nope".into()], cond: None });
    out.push(Sel::Wrap { from: Box::new(x.clone()), cols: vec![], cond: Some(E::bin(Bin::Eq, E::col("nope"), E::int(1))) });
    out
}

fn on_conditions(l: &Sel, r: &Sel) -> Vec<E> {
    let f = |s: &Sel| -> Vec<String> {
        let (n, c) = col_names(s);
        c.into_iter().map(|x| match &n { Some(t) => format!("{}.{}", t, x), None => x }).collect()
    };
    let lc = f(l);
    let rc = f(r);
    let mut out = vec![E::int(1), E::int(0), E::null(), E::bin(Bin::Eq, E::col("nope.nope"), E::int(1))];
    if let (Some(lk), Some(rk)) = (lc.first(), rc.first()) {
        out.push(E::bin(Bin::Eq, E::col(lk), E::col(rk)));
        out.push(E::bin(Bin::Lt, E::col(lk), E::col(rk)));
    }
    if let (Some(ln), Some(rn)) = (lc.last(), rc.last()) {
        out.push(E::bin(Bin::Eq, E::col(ln), E::col(rn)));
    }
    out
}

fn trees(tier: Tier) -> Vec<Sel> {
    let base = vec![Sel::table("A"), Sel::table("B")];
    let mut ops1: Vec<Sel> = base.clone();
    for b in &base {
        ops1.extend(wraps(b));
    }
    let mut out: Vec<Sel> = ops1.clone();
    out.push(Sel::table("Nope"));
    let mut joins1 = Vec::new();
    for l in &ops1 {
        for r in &ops1 {
            for on in on_conditions(l, r) {
                joins1.push(Sel::Inner(Box::new(l.clone()), Box::new(r.clone()), on.clone()));
                joins1.push(Sel::Left(Box::new(l.clone()), Box::new(r.clone()), on));
            }
        }
    }
    out.extend(joins1.iter().cloned());
    // joins with an unknown table on either side
    out.push(Sel::Inner(Box::new(Sel::table("Nope")), Box::new(Sel::table("A")), E::int(1)));
    out.push(Sel::Left(Box::new(Sel::table("A")), Box::new(Sel::table("Nope")), E::int(1)));
    // depth 2: wrapped joins and joins of joins
    let plain_joins: Vec<&Sel> = joins1
        .iter()
        .filter(|j| match j {
            Sel::Inner(l, r, _) | Sel::Left(l, r, _) => matches!(**l, Sel::Table(_)) && matches!(**r, Sel::Table(_)),
            _ => false,
        })
        .collect();
    let mut ops2: Vec<Sel> = Vec::new();
    for j in &plain_joins {
        ops2.push((*j).clone());
        for w in wraps(j) {
            out.push(w.clone());
            ops2.push(w);
        }
    }
    let step = if tier.thorough() { 1 } else { 3 };
    let others: Vec<Sel> = if tier.thorough() { ops1.clone() } else { vec![ops1[0].clone(), ops1[1].clone(), ops1[3].clone(), ops1[9].clone()] };
    for l in ops2.iter().step_by(step) {
        for r in &others {
            for on in on_conditions(l, r) {
                out.push(Sel::Inner(Box::new(l.clone()), Box::new(r.clone()), on.clone()));
                out.push(Sel::Left(Box::new(r.clone()), Box::new(l.clone()), on));
            }
        }
    }
    if tier.thorough() {
        // depth 3: join of two joins
        for l in ops2.iter().step_by(5) {
            for r in ops2.iter().step_by(7) {
                for on in on_conditions(l, r).into_iter().take(6) {
                    out.push(Sel::Left(Box::new(l.clone()), Box::new(r.clone()), on.clone()));
                    out.push(Sel::Inner(Box::new(l.clone()), Box::new(r.clone()), on));
                }
            }
        }
    }
    out
}

fn shape(s: &Sel) -> String {
    match s {
        Sel::Table(_) => "T".into(),
        Sel::Wrap { from, cols, cond } => format!("W{}{}({})", if cols.is_empty() { "" } else { "p" }, if cond.is_some() { "f" } else { "" }, shape(from)),
        Sel::Inner(l, r, _) => format!("I({},{})", shape(l), shape(r)),
        Sel::Left(l, r, _) => format!("L({},{})", shape(l), shape(r)),
    }
}

fn top_kind(s: &Sel) -> &'static str {
    match s {
        Sel::Table(_) => "table",
        Sel::Wrap { .. } => "select",
        Sel::Inner(..) => "inner-join",
        Sel::Left(..) => "left-join",
    }
}

pub fn run(tier: Tier) -> i32 {
    let mut rep = Report::new("C12", tier, "model_checking");
    rep.assume("reference semantics of DESIGN.md appendix C; a column name that matches two result columns (self-join) is unspecified: only totality is demanded there");
    let ts = trees(tier);
    let ca = contents_a(tier);
    let cb = contents_b(tier);
    let combos: Vec<(usize, usize)> = (0..ca.len()).flat_map(|i| (0..cb.len()).map(move |j| (i, j))).collect();
    let results: Vec<(u64, [u64; 4], Vec<(String, String, usize)>)> = combos
        .par_iter()
        .map(|(ia, ib)| {
            let db = Db { a: ca[*ia].clone(), b: cb[*ib].clone() };
            let mut h = Harness::create(0).expect("create");
            let setup = [
                Op::CreateTable { name: "A".into(), cols: vec![ColSpec::new("x", Ty::I16).key(), ColSpec::new("y", Ty::I16).nullable()] },
                Op::CreateTable { name: "B".into(), cols: vec![ColSpec::new("u", Ty::I16).key(), ColSpec::new("v.w", Ty::Str(4)).nullable()] },
                Op::Insert { table: "A".into(), rows: db.a.clone() },
                Op::Insert { table: "B".into(), rows: db.b.clone() },
            ];
            for op in &setup {
                if let Op::Insert { rows, .. } = op {
                    if rows.is_empty() {
                        continue;
                    }
                }
                assert!(matches!(h.apply(op), Outcome::Ok), "setup {:?}", op.show());
            }
            let mut n = 0u64;
            let mut classes = [0u64; 4];
            let mut vs = Vec::new();
            for (ti, t) in ts.iter().enumerate() {
                n += 1;
                let want = ref_select(&db, t);
                let got = catch(|| match h.p().select_rows(t.to_msi()) {
                    Err(e) => Err(format!("{:?}", e.kind())),
                    Ok(rows) => {
                        let reported = rows.len();
                        let cols: Vec<(String, bool)> = rows.columns().iter().map(|c| (c.name().to_string(), c.is_nullable())).collect();
                        let v: Vec<Vec<Val>> = rows.map(|r| (0..r.len()).map(|i| Val::from_msi(&r[i])).collect()).collect();
                        Ok((cols, v, reported))
                    }
                });
                let ctx = format!("A={} B={}", crate::snapshot::show_rows(&Ok(db.a.clone())), crate::snapshot::show_rows(&Ok(db.b.clone())));
                match got {
                    Err(p) => {
                        classes[3] += 1;
                        vs.push((format!("panic:{}:{}", top_kind(t), panic_site(&p)), format!("{} panicked: {} [{}]", t.show(), p, ctx), ti));
                        // the container lock may be poisoned now
                        break;
                    }
                    Ok(got) => match (want, got) {
                        (Err(RefErr::Unspecified), _) => classes[2] += 1,
                        (Err(RefErr::Err), Err(_)) => classes[1] += 1,
                        (Err(RefErr::Err), Ok(_)) => vs.push((format!("accepted-unknown-name:{}", top_kind(t)), format!("{} must be an error (unknown table or column) but returned rows [{}]", t.show(), ctx), ti)),
                        (Ok(_), Err(e)) => vs.push((format!("refused-valid:{}", top_kind(t)), format!("{} failed with {} [{}]", t.show(), e, ctx), ti)),
                        (Ok(w), Ok((cols, rows, reported))) => {
                            classes[0] += 1;
                            let wn: Vec<&String> = w.cols.iter().map(|c| &c.0).collect();
                            let gn: Vec<&String> = cols.iter().map(|c| &c.0).collect();
                            if wn != gn {
                                vs.push((format!("column-names:{}", top_kind(t)), format!("{} has columns {:?}, expected {:?}", t.show(), gn, wn), ti));
                            } else if rows != w.rows {
                                vs.push((format!("rows:{}", top_kind(t)), format!("{} returned {} expected {} [{}]", t.show(), crate::snapshot::show_rows(&Ok(rows)), crate::snapshot::show_rows(&Ok(w.rows.clone())), ctx), ti));
                            } else if reported != w.rows.len() {
                                vs.push((format!("reported-length:{}", top_kind(t)), format!("{} reported {} rows, yielded {}", t.show(), reported, w.rows.len()), ti));
                            } else if matches!(t, Sel::Left(..)) && w.cols.iter().zip(cols.iter()).any(|(a, b)| a.1 && !b.1) {
                                vs.push(("left-join-nullability".into(), format!("{}: a right-hand column is not marked nullable: {:?}", t.show(), cols), ti));
                            }
                        }
                    },
                }
            }
            (n, classes, vs)
        })
        .collect();
    let mut total = 0u64;
    let mut classes = [0u64; 4];
    for (n, c, vs) in results {
        total += n;
        for i in 0..4 {
            classes[i] += c[i];
        }
        for (sig, d, ti) in vs {
            rep.violation(sig, d, json!({"kind":"c12","tree":ts[ti]}));
        }
    }
    let shapes: BTreeSet<String> = ts.iter().map(shape).collect();
    rep.set("states", total);
    rep.set("transitions", total);
    rep.set("traces_validated_against_impl", total);
    rep.set("evaluations", total);
    rep.set("distinct_nontrivial", classes[0]);
    rep.set("select_trees", ts.len());
    rep.set("distinct_tree_shapes", shapes.len());
    rep.set("table_contents", combos.len());
    rep.set("results_compared_row_by_row", classes[0]);
    rep.set("must_fail_and_failed", classes[1]);
    rep.set("unspecified_ambiguous_name", classes[2]);
    rep.set("exhaustive", true);
    rep.set("rule", "every select tree of the tier's family (tables, filters, projections, inner and left joins, self-joins, wrapped joins, joins of joins; join conditions: key equality, key order, nullable = nullable, TRUE, FALSE, NULL, unknown column; unknown tables and columns in every position) x every content of A(x,y) and B(u,v) in the tier's set (thorough: all 16 x 16 contents with <= 2 rows over {null,1,2}), compared with a reference nested-loop evaluator: Ok/Err, column names, rows in order, reported length, nullability of the right side of a left join. distinct_nontrivial = (tree, content) pairs compared row by row");
    rep.sample(json!({"tree": ts[ts.len() / 2].show()}));
    rep.sample(json!({"tree": ts[ts.len() - 1].show()}));
    rep.finish()
}

pub fn replay(doc: &serde_json::Value) {
    let t: Sel = serde_json::from_value(doc["tree"].clone()).unwrap();
    println!("tree: {}", t.show());
    println!("text: {:?}", catch(|| t.to_msi().to_string()));
    let db = Db { a: vec![vec![Val::Int(1), Val::Int(1)], vec![Val::Int(2), Val::Null]], b: vec![vec![Val::Int(1), Val::s("a")]] };
    let mut h = Harness::create(0).expect("create");
    for op in [
        Op::CreateTable { name: "A".into(), cols: vec![ColSpec::new("x", Ty::I16).key(), ColSpec::new("y", Ty::I16).nullable()] },
        Op::CreateTable { name: "B".into(), cols: vec![ColSpec::new("u", Ty::I16).key(), ColSpec::new("v.w", Ty::Str(4)).nullable()] },
        Op::Insert { table: "A".into(), rows: db.a.clone() },
        Op::Insert { table: "B".into(), rows: db.b.clone() },
    ] {
        h.apply(&op);
    }
    println!("reference: {:?}", ref_select(&db, &t).map(|r| (r.cols, r.rows)));
    let got = catch(|| h.p().select_rows(t.to_msi()).map(|rows| rows.map(|r| (0..r.len()).map(|i| Val::from_msi(&r[i])).collect::<Vec<_>>()).collect::<Vec<_>>()).map_err(|e| e.to_string()));
    println!("library: {:?}", got);
}

//! C13 — expression evaluation is total and follows the documented operators.
//! Engine E2: bounded-exhaustive enumeration of expression trees, evaluated by
//! the real `msi::Expr` (built through the public constructors) and by the
//! independent reference evaluator in `val.rs`.

use crate::medium::Medium;
use crate::report::{catch, panic_site, Report, Tier};
use crate::val::*;
use rayon::prelude::*;
use serde_json::json;
use std::collections::{BTreeMap, BTreeSet};

/// The literal domain of the property statement.
pub fn v0() -> Vec<Val> {
    vec![
        Val::Null,
        Val::Int(0),
        Val::Int(1),
        Val::Int(-1),
        Val::Int(2),
        Val::Int(31),
        Val::Int(32),
        Val::Int(i32::MIN),
        Val::Int(i32::MAX),
        Val::s(""),
        Val::s("a"),
        Val::s("b"),
        // a string that looks like a number is still a string
        Val::s("2"),
        // not empty, hence true
        Val::s(" "),
    ]
}

/// Columns of the one-row table the lazy builds are evaluated on.  A column
/// cannot hold i32::MIN (reserved for null by the format) nor, after a save,
/// the empty string (same stored value as null); MIN+1 stands in.
pub fn column_values() -> Vec<(&'static str, Val)> {
    vec![
        ("cn", Val::Null),
        ("c0", Val::Int(0)),
        ("c1", Val::Int(1)),
        ("cm1", Val::Int(-1)),
        ("c2", Val::Int(2)),
        ("c31", Val::Int(31)),
        ("c32", Val::Int(32)),
        ("cmin1", Val::Int(i32::MIN + 1)),
        ("cmax", Val::Int(i32::MAX)),
        ("sn", Val::Null),
        ("sa", Val::s("a")),
        ("sb", Val::s("b")),
        ("s2", Val::s("2")),
        ("sp", Val::s(" ")),
    ]
}

pub fn make_row_package() -> msi::Package<Medium> {
    let (m, _) = Medium::empty();
    let mut p = msi::Package::create(msi::PackageType::Installer, m).expect("create");
    let mut cols = vec![msi::Column::build("k").primary_key().int16()];
    for (name, _) in column_values() {
        if name.starts_with('c') {
            cols.push(msi::Column::build(name).nullable().int32());
        } else {
            cols.push(msi::Column::build(name).nullable().string(0));
        }
    }
    p.create_table("R", cols).expect("create_table R");
    let mut row = vec![msi::Value::Int(1)];
    for (_, v) in column_values() {
        row.push(v.to_msi());
    }
    p.insert_rows(msi::Insert::into("R").row(row)).expect("insert R");
    p
}

pub fn the_row(p: &mut msi::Package<Medium>) -> msi::Row {
    p.select_rows(msi::Select::table("R")).expect("select R").next().expect("one row")
}

fn lookup(name: &str) -> Val {
    for (n, v) in column_values() {
        if n == name {
            return v;
        }
    }
    Val::Null
}

#[derive(Clone, Debug)]
struct Case {
    e: E,
    build: &'static str,
}

struct Outcome {
    // class for distinct-outcome counting
    class: String,
    violation: Option<(String, String)>,
}

fn check_case(c: &Case, row: &msi::Row) -> Outcome {
    let acc = ref_eval(&c.e, &lookup);
    let built = catch(|| c.e.to_msi());
    let x = match built {
        Ok(x) => x,
        Err(p) => {
            return Outcome {
                class: "panic-build".into(),
                violation: Some((
                    format!("panic-in-construction:{}:{}", top(&c.e), panic_site(&p)),
                    format!("building {} ({}) panicked: {}", c.e.show(), c.build, p),
                )),
            }
        }
    };
    let got = catch(|| Val::from_msi(&x.eval(row)));
    match got {
        Err(p) => Outcome {
            class: "panic-eval".into(),
            violation: Some((
                format!("panic-in-eval:{}:{}", top(&c.e), panic_site(&p)),
                format!("evaluating {} ({}) panicked: {}", c.e.show(), c.build, p),
            )),
        },
        Ok(v) => {
            if acc.contains(&v) {
                Outcome { class: format!("{}", kind_of(&v)), violation: None }
            } else {
                Outcome {
                    class: "wrong".into(),
                    violation: Some((
                        format!("wrong-result:{}", shape(&c.e)),
                        format!(
                            "{} ({}) evaluated to {} but the documented result is {}",
                            c.e.show(),
                            c.build,
                            v.show(),
                            acc.iter().map(|a| a.show()).collect::<Vec<_>>().join(" or ")
                        ),
                    )),
                }
            }
        }
    }
}

fn top(e: &E) -> String {
    match e {
        E::Un(op, _) => format!("{:?}", op),
        E::Bin(op, _, _) => format!("{:?}", op),
        _ => "leaf".into(),
    }
}

fn kind_of(v: &Val) -> String {
    match v {
        Val::Null => "null".into(),
        Val::Int(n) => format!("int:{}", n),
        Val::Str(s) => format!("str:{}", s),
    }
}

/// Signature shape: the top operator plus operand classes — specific enough
/// that a different defect gets a different signature.
fn shape(e: &E) -> String {
    fn cls(e: &E) -> String {
        match e {
            E::Lit(Val::Null) => "null".into(),
            E::Lit(Val::Int(n)) => match *n {
                i32::MIN => "MIN".into(),
                i32::MAX => "MAX".into(),
                n if n < 0 => "neg".into(),
                0 => "0".into(),
                n if n >= 32 => "ge32".into(),
                _ => "pos".into(),
            },
            E::Lit(Val::Str(_)) => "str".into(),
            E::Col(_) => "col".into(),
            E::Un(op, _) => format!("{:?}(..)", op),
            E::Bin(op, _, _) => format!("{:?}(..)", op),
        }
    }
    match e {
        E::Un(op, a) => format!("{:?}({})", op, cls(a)),
        E::Bin(op, a, b) => format!("{:?}({},{})", op, cls(a), cls(b)),
        other => cls(other),
    }
}

fn leaf_variants(v: &Val) -> Vec<(E, bool)> {
    // (expression, is_column)
    let mut out = vec![(E::Lit(v.clone()), false)];
    for (n, cv) in column_values() {
        if &cv == v {
            let is_int_col = n.starts_with('c');
            // pick the int column for null by default; the string-typed null
            // column is covered separately below
            if *v == Val::Null && !is_int_col {
                continue;
            }
            out.push((E::col(n), true));
        }
    }
    out
}

pub fn run(tier: Tier) -> i32 {
    let mut rep = Report::new("C13", tier, "model_checking");
    rep.assume("reference evaluator in val.rs is written from the doc comments of expr.rs; on overflow / out-of-range shift it accepts null or the wrapped value; ordered comparison of operands of different kinds accepts 0 or 1");
    rep.assume("columns cannot hold i32::MIN or the empty string (format), so those two values appear as literals only; MIN+1 stands in as column value");

    let v0 = v0();
    // ---------------- depth 1, four builds --------------------------------
    let mut cases: Vec<Case> = Vec::new();
    for op in ALL_UN {
        for v in &v0 {
            for (e, is_col) in leaf_variants(v) {
                cases.push(Case { e: E::un(op, e), build: if is_col { "lazy" } else { "folded" } });
            }
        }
    }
    // the string-typed null column as operand of every unary op
    for op in ALL_UN {
        cases.push(Case { e: E::un(op, E::col("sn")), build: "lazy" });
    }
    // column-only values (MIN+1) as well
    for op in ALL_UN {
        cases.push(Case { e: E::un(op, E::col("cmin1")), build: "lazy" });
    }
    for op in ALL_BIN {
        for a in &v0 {
            for c in &v0 {
                for (ea, ca) in leaf_variants(a) {
                    for (ec, cc) in leaf_variants(c) {
                        let build = match (ca, cc) {
                            (false, false) => "folded",
                            (true, true) => "col-col",
                            (false, true) => "lit-col",
                            (true, false) => "col-lit",
                        };
                        cases.push(Case { e: E::bin(op, ea.clone(), ec.clone()), build });
                    }
                }
            }
        }
        for other in ["cmin1", "sn"] {
            for a in &v0 {
                cases.push(Case { e: E::bin(op, E::col(other), E::Lit(a.clone())), build: "col-lit" });
                cases.push(Case { e: E::bin(op, E::Lit(a.clone()), E::col(other)), build: "lit-col" });
            }
        }
    }
    let depth1 = cases.len();

    // ---------------- depth 2 via value closure ---------------------------
    // V1: distinct results of depth-1 expressions (reference, first
    // acceptable value and alternatives), each with a representative
    // expression in a folded (literal-only) and a lazy (column) build.
    let mut reps_folded: BTreeMap<Val, E> = BTreeMap::new();
    let mut reps_lazy: BTreeMap<Val, E> = BTreeMap::new();
    for v in &v0 {
        reps_folded.entry(v.clone()).or_insert(E::Lit(v.clone()));
    }
    for (n, v) in column_values() {
        reps_lazy.entry(v.clone()).or_insert(E::col(n));
    }
    for c in &cases {
        let acc = ref_eval(&c.e, &lookup);
        if acc.len() != 1 {
            continue; // only representatives with a determined value
        }
        let v = acc[0].clone();
        let mut cols = BTreeSet::new();
        c.e.columns(&mut cols);
        if cols.is_empty() {
            // a folded representative must itself not panic while being built;
            // (that is checked at depth 1) use it regardless: a panic shows up
            // there first.
            reps_folded.entry(v).or_insert(c.e.clone());
        } else if c.build == "col-col" || (matches!(c.e, E::Un(..)) && c.build == "lazy") {
            reps_lazy.entry(v).or_insert(c.e.clone());
        }
    }
    let vals: Vec<Val> = {
        let mut s: BTreeSet<Val> = reps_folded.keys().cloned().collect();
        s.extend(reps_lazy.keys().cloned());
        s.into_iter().collect()
    };
    let mut depth2 = 0usize;
    let int_only = |v: &Val| matches!(v, Val::Int(_) | Val::Null);
    for op in ALL_UN {
        for v in &vals {
            if let Some(e) = reps_folded.get(v) {
                cases.push(Case { e: E::un(op, e.clone()), build: "folded-d2" });
                depth2 += 1;
            }
            if let Some(e) = reps_lazy.get(v) {
                cases.push(Case { e: E::un(op, e.clone()), build: "lazy-d2" });
                depth2 += 1;
            }
        }
    }
    for op in ALL_BIN {
        for a in &vals {
            for c in &vals {
                if let (Some(ea), Some(ec)) = (reps_folded.get(a), reps_folded.get(c)) {
                    cases.push(Case { e: E::bin(op, ea.clone(), ec.clone()), build: "folded-d2" });
                    depth2 += 1;
                }
                if let (Some(ea), Some(ec)) = (reps_lazy.get(a), reps_lazy.get(c)) {
                    cases.push(Case { e: E::bin(op, ea.clone(), ec.clone()), build: "lazy-d2" });
                    depth2 += 1;
                }
            }
        }
    }
    // ---------------- depth 3 (thorough): integer operators over V2 --------
    let mut depth3 = 0usize;
    if tier.thorough() {
        let mut reps2: BTreeMap<Val, E> = BTreeMap::new();
        for c in &cases {
            let mut cols = BTreeSet::new();
            c.e.columns(&mut cols);
            if cols.is_empty() {
                continue;
            }
            let acc = ref_eval(&c.e, &lookup);
            if acc.len() == 1 && int_only(&acc[0]) {
                reps2.entry(acc[0].clone()).or_insert(c.e.clone());
            }
        }
        let vals2: Vec<Val> = reps2.keys().cloned().collect();
        let int_ops = [
            Bin::Add,
            Bin::Sub,
            Bin::Mul,
            Bin::Div,
            Bin::BitAnd,
            Bin::BitOr,
            Bin::BitXor,
            Bin::Shl,
            Bin::Shr,
            Bin::Lt,
            Bin::Eq,
        ];
        // the full square V2 x V2 for every integer operator, in the lazy
        // build and (where both representatives are literal-only) the folded
        // build; generated on the fly, not materialised
        let mut reps2_folded: BTreeMap<Val, E> = BTreeMap::new();
        for c in &cases {
            let mut cols = BTreeSet::new();
            c.e.columns(&mut cols);
            if !cols.is_empty() {
                continue;
            }
            let acc = ref_eval(&c.e, &lookup);
            if acc.len() == 1 && int_only(&acc[0]) {
                reps2_folded.entry(acc[0].clone()).or_insert(c.e.clone());
            }
        }
        let n2 = vals2.len();
        let total3 = int_ops.len() * n2 * n2;
        let d3: Vec<(String, String, E, &'static str)> = (0..total3)
            .into_par_iter()
            .map_init(
                || {
                    let mut p = make_row_package();
                    the_row(&mut p)
                },
                |row, idx| {
                    let op = int_ops[idx / (n2 * n2)];
                    let a = &vals2[(idx / n2) % n2];
                    let c = &vals2[idx % n2];
                    let mut out = Vec::new();
                    let lazy = Case { e: E::bin(op, reps2[a].clone(), reps2[c].clone()), build: "lazy-d3" };
                    if let Some((sig, d)) = check_case(&lazy, row).violation {
                        out.push((sig, d, lazy.e.clone(), "lazy-d3"));
                    }
                    if let (Some(fa), Some(fc)) = (reps2_folded.get(a), reps2_folded.get(c)) {
                        let folded = Case { e: E::bin(op, fa.clone(), fc.clone()), build: "folded-d3" };
                        if let Some((sig, d)) = check_case(&folded, row).violation {
                            out.push((sig, d, folded.e.clone(), "folded-d3"));
                        }
                    }
                    out
                },
            )
            .flatten()
            .collect();
        depth3 = total3 * 2;
        for (sig, d, e, build) in d3 {
            rep.violation(sig, d, json!({"kind":"c13-expr","expr": e, "build": build}));
        }
        rep.set("v2_values", vals2.len());
    }

    // ---------------- structural depth 2 -----------------------------------
    // The closure above assumes an expression depends on its sub-expressions
    // only through their values.  A simplification at construction time that
    // looks at the STRUCTURE (e.g. "the same unary operator twice cancels")
    // breaks that assumption, so every tree of depth <= 2 over a small leaf
    // set is enumerated as well, by index, without materialising them.
    let sleaves: Vec<E> = if tier.thorough() {
        vec![E::col("cn"), E::col("c1"), E::col("cm1"), E::col("sa"), E::col("c2"), E::int(2), E::str("b"), E::null()]
    } else {
        vec![E::col("c1"), E::col("cm1"), E::col("sa"), E::col("cn"), E::int(2)]
    };
    let mut sd1: Vec<E> = sleaves.clone();
    for op in ALL_UN {
        for l in &sleaves {
            sd1.push(E::un(op, l.clone()));
        }
    }
    for op in ALL_BIN {
        for l in &sleaves {
            for r in &sleaves {
                sd1.push(E::bin(op, l.clone(), r.clone()));
            }
        }
    }
    let n1 = sd1.len();
    let stotal = ALL_UN.len() * n1 + ALL_BIN.len() * n1 * n1;
    let sres: Vec<(String, String, E)> = (0..stotal)
        .into_par_iter()
        .map_init(
            || {
                let mut p = make_row_package();
                the_row(&mut p)
            },
            |row, idx| {
                let e = if idx < ALL_UN.len() * n1 {
                    E::un(ALL_UN[idx / n1], sd1[idx % n1].clone())
                } else {
                    let j = idx - ALL_UN.len() * n1;
                    E::bin(ALL_BIN[j / (n1 * n1)], sd1[(j / n1) % n1].clone(), sd1[j % n1].clone())
                };
                let c = Case { e, build: "structural-d2" };
                check_case(&c, row).violation.map(|(s, d)| (s, d, c.e.clone()))
            },
        )
        .flatten()
        .collect();
    for (sig, d, e) in sres {
        rep.violation(format!("structural:{}", sig), d, json!({"kind":"c13-expr","expr": e, "build": "structural-d2"}));
    }
    rep.set("structural_depth2_trees", stotal);

    // ---------------- run --------------------------------------------------
    let results: Vec<(usize, Outcome)> = cases
        .par_iter()
        .enumerate()
        .map_init(
            || {
                let mut p = make_row_package();
                the_row(&mut p)
            },
            |row, (i, c)| (i, check_case(c, row)),
        )
        .collect();
    let mut classes: BTreeSet<String> = BTreeSet::new();
    for (i, o) in results {
        classes.insert(o.class);
        if let Some((sig, detail)) = o.violation {
            let c = &cases[i];
            rep.violation(sig, detail, json!({"kind":"c13-expr","expr": c.e, "build": c.build}));
        }
    }

    // ---------------- one expression object, rows of several layouts -------
    // The same `Expr` value is evaluated on the full row, on the projection
    // with the columns in reverse order, on a projection holding only the
    // columns it mentions (reversed), and on the full row again: a row "that
    // has the referenced columns" may have them anywhere.
    let names: Vec<&'static str> = column_values().into_iter().map(|c| c.0).collect();
    let mut reuse: Vec<E> = Vec::new();
    for op in ALL_UN {
        for a in &names {
            reuse.push(E::un(op, E::col(a)));
        }
    }
    for op in ALL_BIN {
        for a in &names {
            for b in &names {
                reuse.push(E::bin(op, E::col(a), E::col(b)));
            }
        }
    }
    let reuse_results: Vec<Vec<(String, String)>> = reuse
        .par_iter()
        .map_init(
            || {
                let mut p = make_row_package();
                let full = the_row(&mut p);
                let mut rev: Vec<&str> = names.clone();
                rev.reverse();
                let reversed = p.select_rows(msi::Select::table("R").columns(&rev[..])).expect("select reversed").next().expect("one row");
                (p, full, reversed)
            },
            |(p, full, reversed), e| {
                let mut out = Vec::new();
                let acc = ref_eval(e, &lookup);
                let x = match catch(|| e.to_msi()) {
                    Ok(x) => x,
                    Err(_) => return out, // reported by the groups above
                };
                let mut mentioned = BTreeSet::new();
                e.columns(&mut mentioned);
                let mut only: Vec<String> = mentioned.into_iter().collect();
                only.reverse();
                let narrow = p.select_rows(msi::Select::table("R").columns(&only[..])).expect("select narrow").next().expect("one row");
                for (layout, row) in [("full row", &*full), ("columns reversed", &*reversed), ("only the mentioned columns", &narrow), ("full row again", &*full)] {
                    match catch(|| Val::from_msi(&x.eval(row))) {
                        Err(pn) => {
                            out.push((format!("panic-in-eval:reused-expression:{}", panic_site(&pn)), format!("evaluating the same {} a second time, on the row layout `{}`, panicked: {}", e.show(), layout, pn)));
                            break;
                        }
                        Ok(v) => {
                            if !acc.contains(&v) {
                                out.push((format!("wrong-result:reused-expression:{}", top(e)), format!("the same expression object {} evaluated on the row layout `{}` gives {} but the documented result is {}", e.show(), layout, v.show(), acc.iter().map(|a| a.show()).collect::<Vec<_>>().join(" or "))));
                                break;
                            }
                        }
                    }
                }
                out
            },
        )
        .collect();
    let reuse_n = reuse.len() * 4;
    for (e, r) in reuse.iter().zip(reuse_results.into_iter()) {
        for (sig, detail) in r {
            rep.violation(sig, detail, json!({"kind":"c13-expr","expr": e, "build": "reused on several row layouts"}));
        }
    }
    rep.set("reused_expression_evaluations", reuse_n);

    // ---------------- deep chains -------------------------------------------
    // Long left- and right-nested chains over a column: nesting depth is not
    // an error condition, the value is the documented one at any depth.
    let deep_n = {
        let depths: Vec<usize> = if tier.thorough() { vec![2, 10, 63, 64, 65, 100, 127, 128, 129, 130, 200, 255, 256, 257, 500, 1000] } else { vec![10, 64, 127, 128, 129, 256, 1000] };
        let violations: (usize, Vec<(String, String, E)>) = std::thread::Builder::new()
            .stack_size(256 << 20)
            .spawn(move || {
                let mut out: Vec<(String, String, E)> = Vec::new();
                let mut p = make_row_package();
                let row = the_row(&mut p);
                let mut chains: Vec<(String, E)> = Vec::new();
                for &d in &depths {
                    for (name, op, bottom, other) in [
                        ("add", Bin::Add, "c1", E::int(1)),
                        ("sub", Bin::Sub, "c1", E::int(1)),
                        ("and", Bin::And, "c1", E::int(1)),
                        ("and-false-bottom", Bin::And, "c0", E::int(1)),
                        ("or", Bin::Or, "c0", E::int(0)),
                        ("or-true-bottom", Bin::Or, "c2", E::int(0)),
                        ("eq", Bin::Eq, "c1", E::int(1)),
                        ("bitor", Bin::BitOr, "c2", E::int(1)),
                        ("concat", Bin::Add, "sa", E::str("b")),
                    ] {
                        let mut l = E::col(bottom);
                        let mut r = E::col(bottom);
                        for _ in 0..d {
                            l = E::bin(op, l, other.clone());
                            r = E::bin(op, other.clone(), r);
                        }
                        chains.push((format!("{}:left-nested:{}", name, d), l));
                        chains.push((format!("{}:right-nested:{}", name, d), r));
                    }
                    for (name, op, bottom) in [("not", Un::Not, "c2"), ("neg", Un::Neg, "c2"), ("bitnot", Un::BitNot, "c2")] {
                        let mut e = E::col(bottom);
                        for _ in 0..d {
                            e = E::un(op, e);
                        }
                        chains.push((format!("{}:nested:{}", name, d), e));
                    }
                }
                let n = chains.len();
                for (label, e) in chains {
                    let acc = ref_eval(&e, &lookup);
                    let kind = label.split(':').next().unwrap_or("").to_string();
                    let depth = label.rsplit(':').next().unwrap_or("").to_string();
                    match catch(|| Val::from_msi(&e.to_msi().eval(&row))) {
                        Err(pn) => out.push((format!("panic-in-eval:deep-chain:{}", panic_site(&pn)), format!("a {} chain ({}) panicked: {}", kind, label, pn), E::str(&label))),
                        Ok(v) => {
                            if !acc.contains(&v) {
                                out.push((format!("wrong-result:deep-chain:{}", kind), format!("a chain `{}` evaluates to {} but the documented result is {} (nesting depth {})", label, v.show(), acc.iter().map(|a| a.show()).collect::<Vec<_>>().join(" or "), depth), E::str(&label)));
                            }
                        }
                    }
                }
                // many restrictions on one query
                for &d in &depths {
                    let mut q = msi::Select::table("R");
                    for _ in 0..d {
                        q = q.with(msi::Expr::col("c1").eq(msi::Expr::integer(1)));
                    }
                    match catch(|| p.select_rows(q).map(|r| r.count()).map_err(|e| e.to_string())) {
                        Ok(Ok(1)) => {}
                        other => out.push(("wrong-result:deep-chain:with".to_string(), format!("select with {} true restrictions returned {:?} instead of the one row", d, other), E::str(&format!("with:{}", d)))),
                    }
                }
                (n + depths.len(), out)
            })
            .expect("spawn")
            .join()
            .expect("deep-chain thread");
        for (sig, detail, e) in violations.1 {
            rep.violation(sig, detail, json!({"kind":"c13-deep","label": e}));
        }
        violations.0
    };
    rep.set("deep_chain_evaluations", deep_n);

    // ---------------- conditions as WHERE of select/update/delete ----------
    let cond_cases: Vec<&Case> = cases[..depth1]
        .iter()
        .filter(|c| {
            let mut cols = BTreeSet::new();
            c.e.columns(&mut cols);
            !cols.is_empty()
        })
        .collect();
    let where_results: Vec<Vec<(String, String, E)>> = cond_cases
        .par_iter()
        .map(|c| where_check(&c.e))
        .collect();
    let mut where_n = 0usize;
    for r in where_results {
        where_n += 3;
        for (sig, detail, e) in r {
            rep.violation(sig, detail, json!({"kind":"c13-where","expr": e}));
        }
    }

    let total = cases.len();
    rep.set("states", total);
    rep.set("transitions", total + where_n);
    rep.set("traces_validated_against_impl", total + where_n);
    rep.set("evaluations", total + where_n + stotal + reuse_n + deep_n);
    rep.set("distinct_nontrivial", classes.len());
    rep.set("depth1_cases", depth1);
    rep.set("depth2_cases", depth2);
    rep.set("depth3_cases", depth3);
    rep.set("closure_values", vals.len());
    rep.set("where_calls", where_n);
    rep.set("exhaustive", true);
    rep.set("rule", "every unary/binary operator (3+15+AND+OR) x V0 / V0^2 in four builds (literal-literal = folded at construction, column-column, literal-column, column-literal); depth 2 = every operator over the closure of depth-1 results (one representative expression per value, folded and lazy build); thorough adds depth 3 for integer operators; every depth-1 condition with a column also runs as WHERE of select, update and delete; left- and right-nested chains of every associative-looking operator and of the unary operators to nesting depth 1000 over a column, and selects with up to 1000 restrictions; every operator over every pair of columns is built once and evaluated on four row layouts (full, reversed, only the mentioned columns, full again). distinct_nontrivial = number of distinct result values/outcome classes observed");
    for i in [0usize, depth1 / 2, depth1 + 5, total - 1] {
        if i < total {
            rep.sample(json!({"expr": cases[i].e.show(), "build": cases[i].build}));
        }
    }
    rep.finish()
}

/// Runs `cond` as the WHERE clause of select / update / delete on the one-row
/// table and compares which rows are affected with the reference truthiness.
fn where_check(cond: &E) -> Vec<(String, String, E)> {
    let mut out = Vec::new();
    let acc = ref_eval(cond, &lookup);
    let truth: BTreeSet<bool> = acc.iter().map(|v| v.truthy()).collect();
    for kind in ["select", "update", "delete"] {
        let r = catch(|| {
            let mut p = make_row_package();
            let x = cond.to_msi();
            match kind {
                "select" => {
                    let n = p
                        .select_rows(msi::Select::table("R").with(x))
                        .map(|rows| rows.count())
                        .map_err(|e| e.to_string())?;
                    Ok::<bool, String>(n == 1)
                }
                "update" => {
                    p.update_rows(msi::Update::table("R").set("c2", msi::Value::Int(77)).with(x))
                        .map_err(|e| e.to_string())?;
                    let row = the_row(&mut p);
                    Ok(row["c2"] == msi::Value::Int(77))
                }
                _ => {
                    p.delete_rows(msi::Delete::from("R").with(x)).map_err(|e| e.to_string())?;
                    let n = p.select_rows(msi::Select::table("R")).map_err(|e| e.to_string())?.count();
                    Ok(n == 0)
                }
            }
        });
        match r {
            Err(p) => out.push((
                format!("panic-in-{}-where:{}:{}", kind, shape(cond), panic_site(&p)),
                format!("{} WHERE {} panicked: {}", kind, cond.show(), p),
                cond.clone(),
            )),
            Ok(Err(e)) => out.push((
                format!("error-in-{}-where:{}", kind, shape(cond)),
                format!("{} WHERE {} returned an error: {}", kind, cond.show(), e),
                cond.clone(),
            )),
            Ok(Ok(affected)) => {
                if !truth.contains(&affected) {
                    out.push((
                        format!("wrong-{}-where:{}", kind, shape(cond)),
                        format!(
                            "{} WHERE {}: row affected = {}, reference truthiness = {:?}",
                            kind,
                            cond.show(),
                            affected,
                            truth
                        ),
                        cond.clone(),
                    ));
                }
            }
        }
    }
    out
}

pub fn replay(doc: &serde_json::Value) {
    let e: E = serde_json::from_value(doc["expr"].clone()).expect("expr");
    println!("expression: {}", e.show());
    println!("reference accepts: {:?}", ref_eval(&e, &lookup));
    let mut p = make_row_package();
    let row = the_row(&mut p);
    match catch(|| e.to_msi()) {
        Err(p) => println!("construction panicked: {}", p),
        Ok(x) => {
            println!("text form: {}", x);
            match catch(|| Val::from_msi(&x.eval(&row))) {
                Err(p) => println!("evaluation panicked: {}", p),
                Ok(v) => println!("evaluated to: {}", v.show()),
            }
        }
    }
    if doc["kind"] == "c13-where" {
        for (sig, detail, _) in where_check(&e) {
            println!("{}: {}", sig, detail);
        }
    }
}

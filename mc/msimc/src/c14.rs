//! C14 — code pages encode losslessly what they can represent and match their
//! names.  E2, fully exhaustive over Unicode scalar values x code pages.

use crate::report::{catch, panic_site, Report, Tier};
use encoding_rs::{EncoderResult, Encoding};
use msi::CodePage;
use rayon::prelude::*;
use serde_json::json;
use std::collections::BTreeMap;

/// (id, WHATWG label of the encoding the documentation names; None = defined
/// here directly)
pub const PAGES: [(i32, Option<&str>); 26] = [
    (932, Some("shift_jis")),
    (936, Some("gbk")),
    (949, Some("euc-kr")),
    (950, Some("big5")),
    (951, Some("big5")),
    (1250, Some("windows-1250")),
    (1251, Some("windows-1251")),
    (1252, Some("windows-1252")),
    (1253, Some("windows-1253")),
    (1254, Some("windows-1254")),
    (1255, Some("windows-1255")),
    (1256, Some("windows-1256")),
    (1257, Some("windows-1257")),
    (1258, Some("windows-1258")),
    (10000, Some("macintosh")),
    (10007, Some("x-mac-cyrillic")),
    (20127, None),
    (28591, Some("iso-8859-1")),
    (28592, Some("iso-8859-2")),
    (28593, Some("iso-8859-3")),
    (28594, Some("iso-8859-4")),
    (28595, Some("iso-8859-5")),
    (28596, Some("iso-8859-6")),
    (28597, Some("iso-8859-7")),
    (28598, Some("iso-8859-8")),
    (65001, Some("utf-8")),
];

pub fn ref_encoding(id: i32) -> Option<&'static Encoding> {
    PAGES
        .iter()
        .find(|p| p.0 == id)
        .and_then(|p| p.1)
        .map(|l| Encoding::for_label(l.as_bytes()).expect("label"))
}

/// Reference encoder: the named encoding (addressed by label), unmappable
/// characters replaced by '?'.
pub fn ref_encode(id: i32, s: &str) -> Vec<u8> {
    match ref_encoding(id) {
        None => s.chars().map(|c| if c.is_ascii() { c as u8 } else { b'?' }).collect(),
        Some(enc) => {
            let mut e = enc.new_encoder();
            let mut out = Vec::new();
            let mut buf = vec![0u8; s.len() * 4 + 16];
            let mut rest = s;
            loop {
                let (r, read, written) = e.encode_from_utf8_without_replacement(rest, &mut buf, true);
                out.extend_from_slice(&buf[..written]);
                rest = &rest[read..];
                match r {
                    EncoderResult::InputEmpty => break,
                    EncoderResult::OutputFull => continue,
                    EncoderResult::Unmappable(_) => out.push(b'?'),
                }
            }
            out
        }
    }
}

pub fn ref_decode(id: i32, b: &[u8]) -> String {
    match ref_encoding(id) {
        None => b.iter().map(|c| if c.is_ascii() { *c as char } else { '\u{FFFD}' }).collect(),
        Some(enc) => enc.decode_without_bom_handling(b).0.into_owned(),
    }
}

/// True if `c` has a round-tripping encoding in the page per the reference.
pub fn representable(id: i32, c: char) -> bool {
    let mut s = String::new();
    s.push(c);
    let e = ref_encode(id, &s);
    ref_decode(id, &e) == s
}

#[derive(Default)]
struct PageStats {
    representable: u64,
    replaced: u64,
    lossy: u64,
    mismatch_ref: u64,
}

struct V {
    sig: String,
    detail: String,
    replay: serde_json::Value,
}

fn char_sweep(id: i32, cp: CodePage) -> (PageStats, Vec<V>) {
    let mut st = PageStats::default();
    let mut vs: Vec<V> = Vec::new();
    let mut buf = String::with_capacity(4);
    for u in 0u32..=0x10FFFF {
        let c = match char::from_u32(u) {
            Some(c) => c,
            None => continue,
        };
        buf.clear();
        buf.push(c);
        let enc = cp.encode(&buf);
        let dec = cp.decode(&enc);
        let re = ref_encode(id, &buf);
        if dec == buf {
            st.representable += 1;
        } else if enc == b"?" {
            st.replaced += 1;
        } else {
            st.lossy += 1;
            if vs.len() < 2000 {
                vs.push(V {
                    sig: format!("lossy-char:cp{}:U+{:04X}", id, u),
                    detail: format!(
                        "code page {}: U+{:04X} encodes to {:02X?}, which is neither '?' nor bytes that decode back to it (they decode to {:?})",
                        id, u, enc, dec
                    ),
                    replay: json!({"kind":"c14-char","cp":id,"char":u}),
                });
            }
        }
        // Agreement with the named encoding.  28591: the library uses the
        // WHATWG meaning of the label iso-8859-1 (= windows-1252); true
        // Latin-1 differs only for U+0080..U+009F and the 27 characters
        // windows-1252 puts there; both are accepted for 28591.
        if enc != re {
            let ok_28591 = id == 28591 && {
                let latin1: Vec<u8> = if u <= 0xFF { vec![u as u8] } else { vec![b'?'] };
                enc == latin1
            };
            if !ok_28591 {
                st.mismatch_ref += 1;
                if vs.len() < 2000 {
                    vs.push(V {
                        sig: format!("not-the-named-encoding:cp{}:encode", id),
                        detail: format!(
                            "code page {} ({}): U+{:04X} encodes to {:02X?}, but {} encodes it to {:02X?}",
                            id,
                            cp.name(),
                            u,
                            enc,
                            PAGES.iter().find(|p| p.0 == id).unwrap().1.unwrap_or("US-ASCII"),
                            re
                        ),
                        replay: json!({"kind":"c14-char","cp":id,"char":u}),
                    });
                }
            }
        }
    }
    (st, vs)
}

fn decode_sweep(id: i32, cp: CodePage, thorough: bool) -> (u64, Vec<V>) {
    let mut n = 0u64;
    let mut vs: Vec<V> = Vec::new();
    let mut check = |bytes: &[u8], vs: &mut Vec<V>| {
        n += 1;
        let got = match catch(|| cp.decode(bytes)) {
            Ok(g) => g,
            Err(p) => {
                vs.push(V {
                    sig: format!("decode-panic:cp{}:{}", id, panic_site(&p)),
                    detail: format!("code page {}: decoding {:02X?} panicked: {}", id, bytes, p),
                    replay: json!({"kind":"c14-bytes","cp":id,"bytes":bytes}),
                });
                return;
            }
        };
        let want = ref_decode(id, bytes);
        if got != want {
            let ok_28591 = id == 28591 && {
                let latin1: String = bytes.iter().map(|b| *b as char).collect();
                got == latin1
            };
            if !ok_28591 && vs.len() < 2000 {
                // classify: BOM sniffing vs table difference
                let bom = bytes.starts_with(&[0xFF, 0xFE]) || bytes.starts_with(&[0xFE, 0xFF]) || bytes.starts_with(&[0xEF, 0xBB, 0xBF]);
                vs.push(V {
                    sig: format!("not-the-named-encoding:cp{}:decode{}", id, if bom { ":bom-prefix" } else { "" }),
                    detail: format!("code page {}: bytes {:02X?} decode to {:?}, the named encoding gives {:?}", id, bytes, got, want),
                    replay: json!({"kind":"c14-bytes","cp":id,"bytes":bytes}),
                });
            }
        }
    };
    check(&[], &mut vs);
    for a in 0u16..=255 {
        check(&[a as u8], &mut vs);
    }
    for a in 0u16..=255 {
        for b in 0u16..=255 {
            check(&[a as u8, b as u8], &mut vs);
        }
    }
    let thirds: Vec<u8> = if thorough {
        (0u16..=255).map(|x| x as u8).collect()
    } else {
        vec![0x00, 0x30, 0x40, 0x7F, 0x80, 0xA1, 0xBF, 0xFE, 0xFF]
    };
    for a in 0x80u16..=255 {
        for b in 0u16..=255 {
            for c in &thirds {
                check(&[a as u8, b as u8, *c], &mut vs);
            }
        }
    }
    // BOM-looking prefixes followed by text
    for prefix in [&[0xFFu8, 0xFE][..], &[0xFE, 0xFF][..], &[0xEF, 0xBB, 0xBF][..]] {
        for tail in [&b"ab"[..], &b"a\x00b\x00"[..], &[0x82, 0xA0][..]] {
            let mut v = prefix.to_vec();
            v.extend_from_slice(tail);
            check(&v, &mut vs);
        }
    }
    (n, vs)
}

/// Characters of each encoded-length class for a page (by the reference).
fn class_chars(id: i32) -> Vec<(&'static str, char)> {
    let mut out = vec![("ascii", 'a')];
    let cands = ['é', 'Ж', 'あ', '中', '한', 'ก', 'ש', 'ع', 'Ω', 'ł', '€', '\u{2603}', '\u{1F600}'];
    let mut one = None;
    let mut two = None;
    let mut three = None;
    let mut unm_bmp = None;
    let mut unm_astral = None;
    for c in cands {
        let s = c.to_string();
        let e = ref_encode(id, &s);
        if ref_decode(id, &e) == s {
            match e.len() {
                1 if one.is_none() => one = Some(c),
                2 if two.is_none() => two = Some(c),
                3 | 4 if three.is_none() => three = Some(c),
                _ => {}
            }
        } else if (c as u32) < 0x10000 {
            if unm_bmp.is_none() {
                unm_bmp = Some(c)
            }
        } else if unm_astral.is_none() {
            unm_astral = Some(c)
        }
    }
    if let Some(c) = one {
        out.push(("non-ascii-1-byte", c));
    }
    if let Some(c) = two {
        out.push(("2-byte", c));
    }
    if let Some(c) = three {
        out.push(("3-4-byte", c));
    }
    if let Some(c) = unm_bmp {
        out.push(("unmappable-bmp", c));
    }
    if let Some(c) = unm_astral {
        out.push(("unmappable-astral", c));
    }
    out
}

fn boundary_sweep(id: i32, cp: CodePage, thorough: bool) -> (u64, Vec<V>) {
    let mut n = 0u64;
    let mut vs = Vec::new();
    let classes = class_chars(id);
    let fills: Vec<char> = classes.iter().filter(|c| !c.0.starts_with("unmappable")).map(|c| c.1).collect();
    let (lo, hi) = if thorough { (1000usize, 1040usize) } else { (1015usize, 1030usize) };
    for fill in &fills {
        let flen = ref_encode(id, &fill.to_string()).len();
        for target in lo..=hi {
            // prefix of `target` encoded bytes: fill chars then 'a' padding
            let nf = target / flen;
            let pad = target - nf * flen;
            for pad_first in [false, true] {
                let mut p = String::new();
                if pad_first {
                    for _ in 0..pad {
                        p.push('a');
                    }
                }
                for _ in 0..nf {
                    p.push(*fill);
                }
                if !pad_first {
                    for _ in 0..pad {
                        p.push('a');
                    }
                }
                for (cname, c) in &classes {
                    for suffix in ["", "z", "\u{2603}z"] {
                        let mut s = p.clone();
                        s.push(*c);
                        s.push_str(suffix);
                        n += 1;
                        let got = match catch(|| cp.encode(&s)) {
                            Ok(g) => g,
                            Err(pn) => {
                                vs.push(V {
                                    sig: format!("encode-panic:cp{}:{}", id, panic_site(&pn)),
                                    detail: format!("code page {}: encoding a {}-byte prefix + {} panicked: {}", id, target, cname, pn),
                                    replay: json!({"kind":"c14-string","cp":id,"string":s}),
                                });
                                continue;
                            }
                        };
                        // concatenation law
                        let mut concat = Vec::new();
                        let mut tmp = String::new();
                        for ch in s.chars() {
                            tmp.clear();
                            tmp.push(ch);
                            concat.extend(cp.encode(&tmp));
                        }
                        if got != concat {
                            vs.push(V {
                                sig: format!("not-concatenation:cp{}:{}", id, cname),
                                detail: format!(
                                    "code page {}: string with {} encoded bytes before a {} character: encode(s) has {} bytes, concat of per-char encodings has {}",
                                    id, target, cname, got.len(), concat.len()
                                ),
                                replay: json!({"kind":"c14-string","cp":id,"string":s}),
                            });
                        }
                    }
                }
            }
        }
    }
    (n, vs)
}

/// Long strings: a character of every class straddling the encoded offsets
/// 2^k (k = 11..17) after an ASCII or multi-byte filling.
fn long_boundary_sweep(id: i32, cp: CodePage, thorough: bool) -> (u64, Vec<V>) {
    let mut n = 0u64;
    let mut vs: Vec<V> = Vec::new();
    let classes = class_chars(id);
    let fills: Vec<char> = classes.iter().filter(|c| !c.0.starts_with("unmappable")).map(|c| c.1).take(if thorough { 4 } else { 2 }).collect();
    let targets: Vec<usize> = if thorough { vec![2048, 4096, 8192, 16384, 32768, 65536, 131072] } else { vec![8192, 65536] };
    for fill in &fills {
        let fenc = cp.encode(&fill.to_string());
        for &target in &targets {
            for delta in 0..4usize {
                let want = target - delta;
                let nf = want / fenc.len();
                let pad = want - nf * fenc.len();
                let mut s = String::with_capacity(want + 16);
                let mut concat: Vec<u8> = Vec::with_capacity(want + 16);
                for _ in 0..pad {
                    s.push('a');
                    concat.push(b'a');
                }
                for _ in 0..nf {
                    s.push(*fill);
                    concat.extend_from_slice(&fenc);
                }
                for (cname, c) in &classes {
                    let mut s2 = s.clone();
                    s2.push(*c);
                    s2.push('z');
                    let mut c2 = concat.clone();
                    c2.extend(cp.encode(&c.to_string()));
                    c2.push(b'z');
                    n += 1;
                    match catch(|| cp.encode(&s2)) {
                        Err(pn) => vs.push(V { sig: format!("encode-panic:cp{}:{}", id, panic_site(&pn)), detail: format!("code page {}: encoding {} bytes + {} panicked: {}", id, want, cname, pn), replay: json!({"kind":"c14-long","cp":id,"prefix_bytes":want}) }),
                        Ok(got) => {
                            if got != c2 && vs.len() < 4 {
                                let at = got.iter().zip(c2.iter()).position(|(a, b)| a != b).unwrap_or(got.len().min(c2.len()));
                                vs.push(V { sig: format!("not-concatenation:cp{}:long-string", id), detail: format!("code page {}: {} encoded bytes of filling, then a {} character: encode(s) has {} bytes, the concatenation of the characters' encodings {} (first difference at byte {})", id, want, cname, got.len(), c2.len(), at), replay: json!({"kind":"c14-long","cp":id,"prefix_bytes":want}) });
                            }
                        }
                    }
                }
            }
        }
    }
    (n, vs)
}

/// Every string of up to `max` characters over a small adversarial alphabet:
/// characters that look like an escape for an unmappable character ("&#1;",
/// "?"), unmappable characters themselves, and a multi-byte character.  The
/// encoding of each must be the concatenation of its characters' encodings.
fn short_string_sweep(id: i32, cp: CodePage, thorough: bool) -> (u64, Vec<V>) {
    // 'e' + U+0301 / 'c' + U+0327: a letter followed by a combining mark that
    // most legacy pages lack (they have the precomposed letter instead)
    let mut alphabet: Vec<char> = vec!['a', '&', '#', '1', ';', '?', 'e', '\u{301}', '\u{327}'];
    if thorough {
        alphabet.push('x');
        alphabet.push('\u{feff}');
    }
    for (name, c) in class_chars(id) {
        if name != "ascii" && name != "non-ascii-1-byte" && !alphabet.contains(&c) {
            alphabet.push(c);
        }
    }
    let max = if thorough { 6 } else { 5 };
    let per_char: Vec<Vec<u8>> = alphabet.iter().map(|c| cp.encode(&c.to_string())).collect();
    let k = alphabet.len() as u64;
    let mut n = 0u64;
    let mut vs: Vec<V> = Vec::new();
    for len in 1..=max {
        let total = k.pow(len as u32);
        for mut idx in 0..total {
            let mut s = String::with_capacity(len * 4);
            let mut concat = Vec::with_capacity(len * 4);
            for _ in 0..len {
                let d = (idx % k) as usize;
                idx /= k;
                s.push(alphabet[d]);
                concat.extend_from_slice(&per_char[d]);
            }
            n += 1;
            match catch(|| cp.encode(&s)) {
                Err(pn) => {
                    if vs.len() < 4 {
                        vs.push(V { sig: format!("encode-panic:cp{}:{}", id, panic_site(&pn)), detail: format!("code page {}: encoding {:?} panicked: {}", id, s, pn), replay: json!({"kind":"c14-string","cp":id,"string":s}) });
                    }
                }
                Ok(got) => {
                    if got != concat && vs.len() < 4 {
                        vs.push(V {
                            sig: format!("not-concatenation:cp{}:short-string", id),
                            detail: format!("code page {}: encode({:?}) = {:02X?}, the concatenation of its characters' encodings is {:02X?}", id, s, got, concat),
                            replay: json!({"kind":"c14-string","cp":id,"string":s}),
                        });
                    }
                }
            }
        }
    }
    (n, vs)
}

fn id_sweep(thorough: bool) -> (u64, Vec<V>) {
    let mut vs = Vec::new();
    let supported: Vec<i32> = PAGES.iter().map(|p| p.0).collect();
    for &id in &supported {
        match CodePage::from_id(id) {
            Some(cp) if cp.id() == id => {}
            other => vs.push(V {
                sig: format!("from-id-of-supported:{}", id),
                detail: format!("from_id({}) = {:?}", id, other.map(|c| c.id())),
                replay: json!({"kind":"c14-id","id":id}),
            }),
        }
    }
    let check_range = |lo: i64, hi: i64| -> (u64, Vec<V>) {
        let chunk = 1i64 << 22;
        let starts: Vec<i64> = (0..).map(|k| lo + k * chunk).take_while(|s| *s <= hi).collect();
        let parts: Vec<(u64, Vec<V>)> = starts
            .par_iter()
            .map(|&s| {
                let mut n = 0u64;
                let mut vs = Vec::new();
                let e = (s + chunk - 1).min(hi);
                let mut x = s;
                while x <= e {
                    let id = x as i32;
                    n += 1;
                    if let Some(cp) = CodePage::from_id(id) {
                        let back = cp.id();
                        if back != id && id != 0 {
                            vs.push(V {
                                sig: format!("id-lookup-not-inverse:{}", id),
                                detail: format!("from_id({}) is a page whose id() is {}", id, back),
                                replay: json!({"kind":"c14-id","id":id}),
                            });
                        }
                        if CodePage::from_id(back) != Some(cp) {
                            vs.push(V {
                                sig: format!("id-lookup-not-inverse:{}", id),
                                detail: format!("from_id(id()) differs for id {}", id),
                                replay: json!({"kind":"c14-id","id":id}),
                            });
                        }
                        if id != 0 && !PAGES.iter().any(|p| p.0 == id) {
                            vs.push(V {
                                sig: format!("undocumented-id-accepted:{}", id),
                                detail: format!("from_id({}) = {:?}, which is not one of the 26 documented identifiers", id, cp),
                                replay: json!({"kind":"c14-id","id":id}),
                            });
                        }
                    }
                    x += 1;
                }
                (n, vs)
            })
            .collect();
        let mut n = 0;
        let mut all = Vec::new();
        for (k, v) in parts {
            n += k;
            all.extend(v);
        }
        (n, all)
    };
    let (n, more) = if thorough {
        check_range(i32::MIN as i64, i32::MAX as i64)
    } else {
        let (mut n, mut v) = check_range(-70_000, 70_000);
        for base in [i32::MIN as i64, i32::MAX as i64 - 64, 65536 * 2, -(1 << 31) + 65001, (1 << 16) + 1252, (1 << 31) - 1 - 65001] {
            let (k, w) = check_range(base.max(i32::MIN as i64), (base + 64).min(i32::MAX as i64));
            n += k;
            v.extend(w);
        }
        (n, v)
    };
    vs.extend(more);
    (n, vs)
}

pub fn run(tier: Tier) -> i32 {
    let mut rep = Report::new("C14", tier, "model_checking");
    rep.assume("reference = encoding_rs addressed by the WHATWG label of the encoding each code page's documentation names (shift_jis, gbk, euc-kr, big5, windows-125x, iso-8859-x, macintosh, x-mac-cyrillic, utf-8), used without BOM handling; US-ASCII by definition; for 28591 both true Latin-1 and the WHATWG reading (windows-1252) are accepted");
    let thorough = tier.thorough();
    let results: Vec<(i32, PageStats, u64, u64, Vec<V>)> = PAGES
        .par_iter()
        .map(|(id, _)| {
            let cp = CodePage::from_id(*id);
            let cp = match cp {
                Some(c) => c,
                None => {
                    return (
                        *id,
                        PageStats::default(),
                        0,
                        0,
                        vec![V {
                            sig: format!("from-id-of-supported:{}", id),
                            detail: format!("from_id({}) is None", id),
                            replay: json!({"kind":"c14-id","id":id}),
                        }],
                    )
                }
            };
            let (st, mut vs) = char_sweep(*id, cp);
            let (nd, v2) = decode_sweep(*id, cp, thorough);
            vs.extend(v2);
            let (nb, mut v3) = boundary_sweep(*id, cp, thorough);
            let (ns, v4) = short_string_sweep(*id, cp, thorough);
            let (nl, v5) = long_boundary_sweep(*id, cp, thorough);
            let nb = nb + ns + nl;
            v3.extend(v4);
            v3.extend(v5);
            vs.extend(v3);
            (*id, st, nd, nb, vs)
        })
        .collect();
    let mut per_page = BTreeMap::new();
    let mut chars = 0u64;
    let mut decodes = 0u64;
    let mut bounds = 0u64;
    let mut nontrivial = 0u64;
    for (id, st, nd, nb, vs) in results {
        chars += st.representable + st.replaced + st.lossy;
        nontrivial += st.representable;
        decodes += nd;
        bounds += nb;
        per_page.insert(
            id.to_string(),
            json!({"representable": st.representable, "replaced_by_question_mark": st.replaced, "lossy": st.lossy, "differs_from_named_encoding": st.mismatch_ref, "byte_sequences_decoded": nd, "boundary_strings": nb}),
        );
        for v in vs {
            rep.violation(v.sig, v.detail, v.replay);
        }
    }
    let (nid, vs) = id_sweep(thorough);
    for v in vs {
        rep.violation(v.sig, v.detail, v.replay);
    }
    let total = chars + decodes + bounds + nid;
    rep.set("states", total);
    rep.set("transitions", total);
    rep.set("traces_validated_against_impl", total);
    rep.set("evaluations", total);
    rep.set("distinct_nontrivial", nontrivial);
    rep.set("characters_x_pages", chars);
    rep.set("byte_sequences_decoded", decodes);
    rep.set("boundary_strings", bounds);
    rep.set("ids_checked", nid);
    rep.set("per_page", serde_json::Value::Object(per_page.into_iter().collect()));
    rep.set("exhaustive", true);
    rep.set("rule", "all 1,112,064 Unicode scalar values x 26 code pages (encode, decode back, compare with the named encoding); every 1- and 2-byte sequence and lead-restricted 3-byte sequences per page for decode; strings with every prefix length around the 1024-byte internal buffer x every character class at the boundary; the same around 8 Ki and 64 Ki encoded bytes (thorough: every 2^k, k = 11..17); every string of <= 5 (thorough 6) characters over {a & # 1 ; ? e U+0301 U+0327, (x, U+FEFF), a multi-byte character, an unmappable BMP and an unmappable astral character} against the concatenation of its characters' encodings; from_id over +-70000 and range ends (thorough: all 2^32). distinct_nontrivial = (character, page) pairs that have a round-tripping non-'?' encoding");
    rep.sample(json!({"cp": 932, "char": "あ", "lib_bytes": CodePage::from_id(932).map(|c| c.encode("あ")), "ref_bytes": ref_encode(932, "あ")}));
    rep.sample(json!({"cp": 1252, "bytes": [0xFF, 0xFE, 0x61, 0x00], "lib": CodePage::from_id(1252).map(|c| c.decode(&[0xFF, 0xFE, 0x61, 0x00])), "ref": ref_decode(1252, &[0xFF, 0xFE, 0x61, 0x00])}));
    rep.finish()
}

pub fn replay(doc: &serde_json::Value) {
    let id = doc["cp"].as_i64().unwrap_or(0) as i32;
    match doc["kind"].as_str().unwrap_or("") {
        "c14-char" => {
            let c = char::from_u32(doc["char"].as_u64().unwrap() as u32).unwrap();
            let cp = CodePage::from_id(id).unwrap();
            let e = cp.encode(&c.to_string());
            println!("cp {} U+{:04X}: lib encode {:02X?} -> decode {:?}; reference encode {:02X?}", id, c as u32, e, cp.decode(&e), ref_encode(id, &c.to_string()));
        }
        "c14-bytes" => {
            let b: Vec<u8> = serde_json::from_value(doc["bytes"].clone()).unwrap();
            let cp = CodePage::from_id(id).unwrap();
            println!("cp {} bytes {:02X?}: lib {:?}; reference {:?}", id, b, cp.decode(&b), ref_decode(id, &b));
        }
        "c14-string" => {
            let s: String = serde_json::from_value(doc["string"].clone()).unwrap();
            let cp = CodePage::from_id(id).unwrap();
            println!("cp {}: lib encode len {}, reference len {}", id, cp.encode(&s).len(), ref_encode(id, &s).len());
        }
        _ => {
            let x = doc["id"].as_i64().unwrap() as i32;
            println!("from_id({}) = {:?}", x, CodePage::from_id(x).map(|c| c.id()));
        }
    }
}

//! C15 — a successful flush means the data reached the medium, even when
//! writes fail.  E3a: every index of the medium's write / read / seek / flush
//! calls of a script as the fault point (transient and persistent), then
//! pairs over a reduced index set.

use crate::medium::{Fault, Kind, Medium};
use crate::ops::{Harness, Model, Op, Outcome, SumOp};
use crate::report::{catch, panic_site, Report, Tier};
use crate::snapshot::{snapshot, Snapshot};
use crate::spec::{ColSpec, Ty};
use crate::val::{Bin, Val, E};
use rayon::prelude::*;
use serde_json::json;

struct Script {
    name: &'static str,
    /// ops executed (fault-free) to build the file the script opens; empty =
    /// the script starts with Package::create
    seed_ops: Vec<Op>,
    /// add both signature streams to the seed file
    signed: bool,
    ops: Vec<Op>,
}

fn t() -> Op {
    Op::CreateTable { name: "T".into(), cols: vec![ColSpec::new("K", Ty::I16).key(), ColSpec::new("S", Ty::Str(0)).nullable()] }
}

fn scripts(tier: Tier) -> Vec<Script> {
    let ins = |rows: Vec<Vec<Val>>| Op::Insert { table: "T".into(), rows };
    let mut v = vec![
        Script { name: "S1-create-insert", signed: false, seed_ops: vec![], ops: vec![t(), ins(vec![vec![Val::Int(1), Val::s("one")], vec![Val::Int(2), Val::s("two")]]), Op::Flush] },
        Script {
            name: "S2-open-update-delete",
            signed: false,
            seed_ops: vec![t(), ins(vec![vec![Val::Int(1), Val::s("one")], vec![Val::Int(2), Val::s("two")], vec![Val::Int(3), Val::s("three")]])],
            ops: vec![
                Op::Update { table: "T".into(), sets: vec![("S".into(), Val::s("uno"))], cond: Some(E::bin(Bin::Eq, E::col("K"), E::int(1))) },
                Op::Flush,
                Op::Delete { table: "T".into(), cond: Some(E::bin(Bin::Eq, E::col("K"), E::int(2))) },
                Op::Flush,
            ],
        },
        Script {
            name: "S4-summary",
            signed: false,
            seed_ops: vec![],
            ops: vec![Op::Summary(SumOp::SetAuthor("Jane".into())), Op::Summary(SumOp::SetComments("c".repeat(600))), Op::Flush, Op::Summary(SumOp::ClearTitle), Op::Flush],
        },
    ];
    // a signed package: removing the signature, then a change, then flush
    v.push(Script {
        name: "S8-remove-signature",
        signed: true,
        seed_ops: vec![t(), ins(vec![vec![Val::Int(1), Val::s("one")]])],
        ops: vec![Op::RemoveSignature, Op::Flush, Op::Summary(SumOp::SetAuthor("Jane".into())), Op::Flush],
    });
    {
        // a string pool larger than the container's 8 KiB buffer: reads of the
        // pool during open span several buffer refills
        let distinct: Vec<Vec<Val>> = (1..=2500).map(|i| vec![Val::Int(i), Val::Str(format!("string-number-{:05}", i))]).collect();
        v.push(Script {
            name: "S9-open-large-pool-update",
            signed: false,
            seed_ops: vec![t(), ins(distinct)],
            ops: vec![Op::Update { table: "T".into(), sets: vec![("S".into(), Val::s("changed"))], cond: Some(E::bin(Bin::Eq, E::col("K"), E::int(2500))) }, Op::Flush],
        });
    }
    if tier.thorough() {
        let many: Vec<Vec<Val>> = (1..=3000).map(|i| vec![Val::Int(i), Val::Str(format!("s{}", i % 7))]).collect();
        v.push(Script { name: "S3-insert-3000-rows", signed: false, seed_ops: vec![t()], ops: vec![ins(many), Op::Flush] });
        v.push(Script { name: "S5-user-stream", signed: false, seed_ops: vec![], ops: vec![Op::WriteStream { name: "Data".into(), len: 9000, seed: 3 }, Op::Flush, Op::WriteStream { name: "small".into(), len: 10, seed: 4 }, Op::Flush] });
        v.push(Script {
            name: "S6-create-drop-insert",
            signed: false,
            seed_ops: vec![],
            ops: vec![
                t(),
                ins(vec![vec![Val::Int(1), Val::s("shared")]]),
                Op::CreateTable { name: "U".into(), cols: vec![ColSpec::new("A", Ty::Str(8)).key()] },
                Op::Insert { table: "U".into(), rows: vec![vec![Val::s("shared")], vec![Val::s("T")]] },
                Op::DropTable { name: "T".into() },
                Op::Insert { table: "U".into(), rows: vec![vec![Val::s("again")]] },
                Op::Flush,
            ],
        });
        v.push(Script { name: "S7-database-codepage", signed: false, seed_ops: vec![t(), ins(vec![vec![Val::Int(1), Val::s("caf\u{e9}")]])], ops: vec![Op::SetDbCodepage(1252), Op::Flush] });
    }
    v
}

struct Run {
    all_ok: bool,
    first_err_step: Option<usize>,
    panic: Option<(usize, String)>,
    /// (step index, bytes on the medium when that flush returned Ok after only-Ok calls)
    flush_points: Vec<(usize, Vec<u8>)>,
    final_bytes: Option<Vec<u8>>,
    counts: (u64, u64, u64, u64),
    fired: u64,
    log: Vec<(Kind, u64, usize)>,
}

/// step numbering: 0 = create/open, 1..=n = ops, n+1 = into_inner
fn run(script: &Script, seed: &Option<Vec<u8>>, faults: Vec<Fault>, log_calls: bool) -> Run {
    let (m, peek) = match seed {
        None => Medium::empty(),
        Some(b) => Medium::new(b.clone()),
    };
    peek.with(|st| {
        st.faults = faults;
        st.log_calls = log_calls;
    });
    let mut r = Run { all_ok: true, first_err_step: None, panic: None, flush_points: vec![], final_bytes: None, counts: (0, 0, 0, 0), fired: 0, log: vec![] };
    let opened = catch(|| match seed {
        None => msi::Package::create(msi::PackageType::Installer, m),
        Some(_) => msi::Package::open(m),
    });
    let pkg = match opened {
        Err(p) => {
            r.panic = Some((0, p));
            r.all_ok = false;
            None
        }
        Ok(Err(_)) => {
            r.all_ok = false;
            r.first_err_step = Some(0);
            None
        }
        Ok(Ok(p)) => Some(p),
    };
    if let Some(pkg) = pkg {
        let mut h = Harness { pkg: Some(pkg), peek: peek.clone() };
        for (i, op) in script.ops.iter().enumerate() {
            let o = h.apply(op);
            match o {
                Outcome::Ok => {
                    if matches!(op, Op::Flush) && r.all_ok {
                        r.flush_points.push((i + 1, peek.durable_bytes()));
                    }
                }
                Outcome::Err(_) => {
                    if r.all_ok {
                        r.first_err_step = Some(i + 1);
                    }
                    r.all_ok = false;
                }
                Outcome::Panic(p) => {
                    r.panic = Some((i + 1, p));
                    r.all_ok = false;
                    break;
                }
            }
            if h.pkg.is_none() {
                break;
            }
        }
        if r.panic.is_none() && h.pkg.is_some() {
            let p = h.pkg.take().unwrap();
            match catch(|| p.into_inner()) {
                Err(pn) => {
                    r.panic = Some((script.ops.len() + 1, pn));
                    r.all_ok = false;
                }
                Ok(Err(_)) => {
                    if r.all_ok {
                        r.first_err_step = Some(script.ops.len() + 1);
                    }
                    r.all_ok = false;
                }
                Ok(Ok(m)) => {
                    if r.all_ok {
                        r.final_bytes = Some(m.into_bytes());
                    }
                }
            }
        }
    }
    r.counts = peek.counts();
    r.fired = peek.with(|st| st.faults_fired);
    if log_calls {
        r.log = peek.with(|st| std::mem::take(&mut st.log));
    }
    r
}

fn expected_after(script: &Script, start: &Snapshot, upto: usize) -> Snapshot {
    let mut m = Model::from_snapshot(start);
    for op in script.ops.iter().take(upto) {
        m.apply(op, true);
    }
    // what a reopen shows
    m.apply(&Op::Reopen, true);
    m.expected_snapshot().normalized()
}

fn reopen_snapshot(bytes: &[u8]) -> Result<Snapshot, String> {
    let mut h = Harness::open(bytes.to_vec())?;
    snapshot(h.p()).map(|s| s.normalized())
}

fn fault_desc(f: &[Fault]) -> String {
    f.iter().map(|x| format!("{:?}#{}{}", x.kind, x.index, if x.persistent { "+" } else { "" })).collect::<Vec<_>>().join(",")
}

fn step_name(script: &Script, step: usize) -> String {
    if step == 0 {
        if script.seed_ops.is_empty() { "create".into() } else { "open".into() }
    } else if step <= script.ops.len() {
        script.ops[step - 1].kind().to_string()
    } else {
        "into_inner".into()
    }
}

/// Evaluates one faulted run against the oracle.
fn judge(script: &Script, start: &Snapshot, faults: &[Fault], r: &Run, step_of_fault: &dyn Fn(&Fault) -> usize) -> Vec<(String, String)> {
    let mut out = Vec::new();
    let during = faults.first().map(|f| step_name(script, step_of_fault(f))).unwrap_or_default();
    if let Some((step, p)) = &r.panic {
        let sig = match r.first_err_step {
            // the library had already reported the I/O error to the caller
            Some(e) if e < *step => format!("panic-after-reported-io-error:{}", panic_site(p)),
            _ => format!("panic:{}:{}:{}", script.name, step_name(script, *step), panic_site(p)),
        };
        out.push((
            sig,
            format!("script {} with fault {} panicked in step {} ({}): {}", script.name, fault_desc(faults), step, step_name(script, *step), p),
        ));
        return out;
    }
    for (step, bytes) in &r.flush_points {
        let want = expected_after(script, start, *step);
        match reopen_snapshot(bytes) {
            Err(e) => out.push((
                format!("flush-ok-but-unreadable:{}:fault-during-{}", script.name, during),
                format!("script {} with fault {}: every call up to the flush at step {} returned Ok, but the bytes on the medium at that moment do not reopen: {}", script.name, fault_desc(faults), step, e),
            )),
            Ok(s) => {
                if let Some(d) = want.diff(&s) {
                    out.push((
                        format!("flush-ok-but-data-missing:{}:fault-during-{}", script.name, during),
                        format!("script {} with fault {}: every call up to the flush at step {} returned Ok, but the medium holds a different state (expected vs medium): {}", script.name, fault_desc(faults), step, d),
                    ));
                }
            }
        }
    }
    if let Some(bytes) = &r.final_bytes {
        let want = expected_after(script, start, script.ops.len());
        match reopen_snapshot(bytes) {
            Err(e) => out.push((
                format!("all-ok-but-unreadable:{}:fault-during-{}", script.name, during),
                format!("script {} with fault {}: every call including into_inner returned Ok, but the bytes do not reopen: {}", script.name, fault_desc(faults), e),
            )),
            Ok(s) => {
                if let Some(d) = want.diff(&s) {
                    out.push((
                        format!("all-ok-but-data-missing:{}:fault-during-{}", script.name, during),
                        format!("script {} with fault {}: every call including into_inner returned Ok, but the medium holds a different state (expected vs medium): {}", script.name, fault_desc(faults), d),
                    ));
                }
            }
        }
    }
    out
}

pub fn run_check(tier: Tier) -> i32 {
    let mut rep = Report::new("C15", tier, "fault_enumeration");
    rep.assume("the medium is the harness's in-memory file (medium.rs); a fault makes that call return io::Error and leaves the bytes untouched; runs in which some call returned an error promise nothing further and are only checked for panics");
    let mut total_runs = 0u64;
    let mut all_ok_runs = 0u64;
    let mut fired_runs = 0u64;
    let mut states_checked = 0u64;
    let mut per_script = serde_json::Map::new();
    for script in scripts(tier) {
        // seed
        let seed: Option<Vec<u8>> = if script.seed_ops.is_empty() {
            None
        } else {
            let mut h = Harness::create(0).expect("create");
            for op in &script.seed_ops {
                assert!(h.apply(op).is_ok(), "seed op {}", op.show());
            }
            let b = h.close_into_inner().expect("seed close");
            Some(if script.signed { add_signature(b) } else { b })
        };
        let start: Snapshot = match &seed {
            None => crate::e1::fresh(0).snapshot,
            Some(b) => {
                let mut h = Harness::open(b.clone()).expect("seed opens");
                snapshot(h.p()).expect("snapshot")
            }
        };
        // 0 deviations: fault-free run, logged
        let base = run(&script, &seed, vec![], true);
        if !base.all_ok || base.final_bytes.is_none() {
            rep.violation(format!("fault-free-run-fails:{}", script.name), format!("script {} does not complete without faults", script.name), json!({"kind":"c15","script":script.name,"faults":[]}));
            continue;
        }
        for v in judge(&script, &start, &[], &base, &|_| 0) {
            rep.violation(v.0, v.1, json!({"kind":"c15","script":script.name,"faults":[]}));
        }
        // determinism of the call sequence
        let base2 = run(&script, &seed, vec![], true);
        if base2.counts != base.counts {
            eprintln!("MACHINERY: call counts differ between two fault-free runs of {}", script.name);
            return 2;
        }
        let (w, rd, sk, fl) = base.counts;
        // Which step was running at call #k of a kind: replay the log and
        // count by re-running with markers is costly; instead derive it from
        // the first_err_step of the transient run (the step that observed the
        // fault) — for silent losses no step observed it, so map by position:
        // run once per step boundary to learn cumulative counts.
        let boundaries = step_boundaries(&script, &seed);
        let step_of = |f: &Fault| -> usize {
            let idx = match f.kind {
                Kind::Write => 0,
                Kind::Read => 1,
                Kind::Seek => 2,
                Kind::Flush => 3,
            };
            boundaries.iter().position(|b| f.index < b[idx]).unwrap_or(boundaries.len())
        };
        // 1 deviation
        let mut plans: Vec<Vec<Fault>> = Vec::new();
        for k in 0..w {
            plans.push(vec![Fault { kind: Kind::Write, index: k, persistent: false }]);
            plans.push(vec![Fault { kind: Kind::Write, index: k, persistent: true }]);
        }
        for k in 0..rd {
            plans.push(vec![Fault { kind: Kind::Read, index: k, persistent: false }]);
        }
        for k in 0..sk {
            plans.push(vec![Fault { kind: Kind::Seek, index: k, persistent: false }]);
        }
        for k in 0..fl {
            plans.push(vec![Fault { kind: Kind::Flush, index: k, persistent: false }]);
            plans.push(vec![Fault { kind: Kind::Flush, index: k, persistent: true }]);
        }
        let singles = plans.len();
        // 2 deviations (thorough, first two scripts): pairs of transient write
        // faults over the reduced index set: first / middle / last index of
        // every maximal run of writes not separated by a seek
        let mut pairs = 0usize;
        if tier.thorough() && (script.name.starts_with("S1") || script.name.starts_with("S2") || script.name.starts_with("S4") || script.name.starts_with("S8")) {
            let mut reduced: Vec<u64> = Vec::new();
            let mut run_start: Option<u64> = None;
            let mut widx = 0u64;
            let mut close = |s: u64, e: u64, reduced: &mut Vec<u64>| {
                reduced.push(s);
                reduced.push((s + e) / 2);
                reduced.push(e);
            };
            for (k, _, _) in &base.log {
                match k {
                    Kind::Write => {
                        if run_start.is_none() {
                            run_start = Some(widx);
                        }
                        widx += 1;
                    }
                    Kind::Seek => {
                        if let Some(s) = run_start.take() {
                            close(s, widx - 1, &mut reduced);
                        }
                    }
                    _ => {}
                }
            }
            if let Some(s) = run_start.take() {
                close(s, widx - 1, &mut reduced);
            }
            reduced.sort();
            reduced.dedup();
            // cap the quadratic blow-up: keep every run's first index, plus
            // middle/last of the runs
            let max_reduced = 700usize;
            if reduced.len() > max_reduced {
                let stepby = (reduced.len() + max_reduced - 1) / max_reduced;
                reduced = reduced.into_iter().step_by(stepby).collect();
            }
            for (a, i) in reduced.iter().enumerate() {
                for j in reduced.iter().skip(a + 1) {
                    plans.push(vec![Fault { kind: Kind::Write, index: *i, persistent: false }, Fault { kind: Kind::Write, index: *j, persistent: false }]);
                    pairs += 1;
                }
            }
        }
        let results: Vec<(bool, bool, usize, Vec<(String, String)>)> = plans
            .par_iter()
            .map(|plan| {
                let r = run(&script, &seed, plan.clone(), false);
                let v = judge(&script, &start, plan, &r, &step_of);
                (r.all_ok, r.fired > 0, r.flush_points.len() + r.final_bytes.is_some() as usize, v)
            })
            .collect();
        let mut s_all_ok = 0u64;
        let mut s_fired = 0u64;
        for (plan, (ok, fired, nfp, vs)) in plans.iter().zip(results.into_iter()) {
            total_runs += 1;
            states_checked += nfp as u64;
            if ok {
                s_all_ok += 1;
            }
            if fired {
                s_fired += 1;
            }
            for (sig, d) in vs {
                let fj: Vec<serde_json::Value> = plan.iter().map(|f| json!({"kind": format!("{:?}", f.kind), "index": f.index, "persistent": f.persistent})).collect();
                rep.violation(sig, d, json!({"kind":"c15","script":script.name,"faults":fj}));
            }
        }
        all_ok_runs += s_all_ok;
        fired_runs += s_fired;
        per_script.insert(
            script.name.to_string(),
            json!({"writes": w, "reads": rd, "seeks": sk, "flushes": fl, "single_fault_runs": singles, "fault_pair_runs": pairs, "runs_where_every_call_returned_ok": s_all_ok, "runs_where_the_fault_fired": s_fired}),
        );
        rep.sample(json!({"script": script.name, "ops": script.ops.iter().map(|o| { let s = o.show(); if s.len() > 120 { format!("{}...", &s[..120]) } else { s } }).collect::<Vec<_>>(), "medium_calls": {"writes": w, "reads": rd, "seeks": sk, "flushes": fl}}));
    }
    rep.set("evaluations", total_runs);
    rep.set("distinct_nontrivial", fired_runs);
    rep.set("runs_where_every_call_returned_ok", all_ok_runs);
    rep.set("medium_states_reopened_and_compared_with_the_model", states_checked);
    rep.set("per_script", serde_json::Value::Object(per_script));
    rep.set("exhaustive", true);
    rep.set("rule", "for each script: one run per (call kind, index k, mode): every write index transient and persistent, every read and seek index transient, every flush index both modes; thorough adds all ordered pairs of transient write faults over the reduced index set (first/middle/last of every seek-delimited run of writes) for S1/S2/S4/S8. Oracle: no panic; whenever every call so far returned Ok at a flush (or at into_inner) the bytes on the medium reopen to exactly the model of those calls. distinct_nontrivial = runs in which the injected fault actually fired (each is a distinct fault point)");
    rep.finish()
}

fn add_signature(bytes: Vec<u8>) -> Vec<u8> {
    use std::io::Write;
    let mut comp = cfb::CompoundFile::open(std::io::Cursor::new(bytes)).expect("cfb open");
    comp.create_stream("\u{5}DigitalSignature").expect("sig").write_all(&[7u8; 300]).expect("w");
    comp.create_stream("\u{5}MsiDigitalSignatureEx").expect("sigex").write_all(&[9u8; 6000]).expect("w");
    comp.flush().expect("flush");
    comp.into_inner().into_inner()
}

/// Cumulative (writes, reads, seeks, flushes) after each step of a fault-free
/// run: boundaries[i] = counts after step i.
fn step_boundaries(script: &Script, seed: &Option<Vec<u8>>) -> Vec<[u64; 4]> {
    let (m, peek) = match seed {
        None => Medium::empty(),
        Some(b) => Medium::new(b.clone()),
    };
    let mut out = Vec::new();
    let snap = |peek: &crate::medium::Peek| -> [u64; 4] {
        let c = peek.counts();
        [c.0, c.1, c.2, c.3]
    };
    let pkg = match seed {
        None => msi::Package::create(msi::PackageType::Installer, m).expect("create"),
        Some(_) => msi::Package::open(m).expect("open"),
    };
    out.push(snap(&peek));
    let mut h = Harness { pkg: Some(pkg), peek: peek.clone() };
    for op in &script.ops {
        h.apply(op);
        out.push(snap(&peek));
    }
    let p = h.pkg.take().unwrap();
    let _ = p.into_inner();
    out.push(snap(&peek));
    out
}

pub fn replay(doc: &serde_json::Value) {
    let name = doc["script"].as_str().unwrap_or("");
    let faults: Vec<Fault> = doc["faults"]
        .as_array()
        .map(|a| {
            a.iter()
                .map(|f| Fault {
                    kind: match f["kind"].as_str().unwrap_or("Write") {
                        "Read" => Kind::Read,
                        "Seek" => Kind::Seek,
                        "Flush" => Kind::Flush,
                        _ => Kind::Write,
                    },
                    index: f["index"].as_u64().unwrap_or(0),
                    persistent: f["persistent"].as_bool().unwrap_or(false),
                })
                .collect()
        })
        .unwrap_or_default();
    for script in scripts(Tier::Thorough) {
        if script.name != name {
            continue;
        }
        let seed: Option<Vec<u8>> = if script.seed_ops.is_empty() {
            None
        } else {
            let mut h = Harness::create(0).expect("create");
            for op in &script.seed_ops {
                h.apply(op);
            }
            let b = h.close_into_inner().expect("close");
            Some(if script.signed { add_signature(b) } else { b })
        };
        let start = match &seed {
            None => crate::e1::fresh(0).snapshot,
            Some(b) => snapshot(Harness::open(b.clone()).unwrap().p()).unwrap(),
        };
        let r = run(&script, &seed, faults.clone(), false);
        println!("all calls ok: {}; first error at step {:?}; panic {:?}; fault fired {} time(s)", r.all_ok, r.first_err_step, r.panic, r.fired);
        for (s, d) in judge(&script, &start, &faults, &r, &|_| 0) {
            println!("{}: {}", s, d);
        }
    }
}

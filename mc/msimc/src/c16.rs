//! C16 — opening and reading a package never modifies it.
//! E1 over read-only alphabets: every sequence of read-only calls up to a
//! length x every way of closing x {read-write, write-refusing} medium, on a
//! corpus of packages; oracle: zero write calls, identical bytes.

use crate::medium::Medium;
use crate::ops::{Harness, Op, SumOp};
use crate::report::{catch, panic_site, Report, Tier};
use crate::spec::{ColSpec, Ty};
use crate::val::Val;
use rayon::prelude::*;
use serde_json::json;
use std::io::Read;

const READ_OPS: [&str; 16] = [
    "package_type",
    "database_codepage",
    "tables+columns",
    "has_table/get_table",
    "select-all",
    "select-filtered",
    "select-projected",
    "inner-join",
    "left-join",
    "failing-select",
    "summary-getters",
    "streams",
    "has_stream",
    "read-all-streams",
    "has_digital_signature",
    "read-missing-stream",
];

fn do_read(p: &mut crate::snapshot::Pkg, op: usize) {
    let names: Vec<String> = p.tables().map(|t| t.name().to_string()).collect();
    match op {
        0 => {
            let _ = p.package_type();
        }
        1 => {
            let _ = p.database_codepage();
        }
        2 => {
            for t in p.tables() {
                for c in t.columns() {
                    let _ = (c.name(), c.coltype(), c.is_nullable(), c.is_primary_key(), c.is_localizable(), c.value_range(), c.category(), c.enum_values());
                }
                let _ = t.primary_key_indices();
            }
        }
        3 => {
            for n in &names {
                let _ = p.has_table(n);
                let _ = p.get_table(n).map(|t| t.has_column("K"));
            }
            let _ = p.has_table("Nope");
        }
        4 => {
            for n in &names {
                if let Ok(rows) = p.select_rows(msi::Select::table(n.clone())) {
                    let _ = rows.count();
                }
            }
        }
        5 => {
            for n in &names {
                let first = p.get_table(n).map(|t| t.columns()[0].name().to_string()).unwrap();
                if let Ok(rows) = p.select_rows(msi::Select::table(n.clone()).with(msi::Expr::col(first).eq(msi::Expr::integer(1)))) {
                    let _ = rows.count();
                }
            }
        }
        6 => {
            for n in &names {
                let last = p.get_table(n).map(|t| t.columns().last().unwrap().name().to_string()).unwrap();
                if let Ok(rows) = p.select_rows(msi::Select::table(n.clone()).columns(&[last])) {
                    let _ = rows.count();
                }
            }
        }
        7 | 8 => {
            if names.len() >= 2 {
                let a = names[names.len() - 1].clone();
                let b = names[0].clone();
                let ca = p.get_table(&a).map(|t| t.columns()[0].name().to_string()).unwrap();
                let cb = p.get_table(&b).map(|t| t.columns()[0].name().to_string()).unwrap();
                let on = msi::Expr::col(format!("{}.{}", a, ca)).eq(msi::Expr::col(format!("{}.{}", b, cb)));
                let q = if op == 7 { msi::Select::table(a).inner_join(msi::Select::table(b), on) } else { msi::Select::table(a).left_join(msi::Select::table(b), on) };
                if let Ok(rows) = p.select_rows(q) {
                    let _ = rows.count();
                }
            }
        }
        9 => {
            let _ = p.select_rows(msi::Select::table("Nope")).map(|r| r.count());
            let _ = p.select_rows(msi::Select::table("_Tables").columns(&["Nope"])).map(|r| r.count());
        }
        10 => {
            let s = p.summary_info();
            let _ = (s.codepage(), s.title(), s.subject(), s.author(), s.comments(), s.creating_application(), s.uuid(), s.word_count(), s.creation_time(), s.arch(), s.languages());
        }
        11 => {
            let _ = p.streams().count();
        }
        12 => {
            let _ = p.has_stream("s1");
            let _ = p.has_stream("Nope");
        }
        13 => {
            let ns: Vec<String> = p.streams().collect();
            for n in ns {
                if let Ok(mut r) = p.read_stream(&n) {
                    let mut b = Vec::new();
                    let _ = r.read_to_end(&mut b);
                }
            }
        }
        14 => {
            let _ = p.has_digital_signature();
        }
        _ => {
            let _ = p.read_stream("Nope").map(|_| ());
            let _ = p.read_stream("").map(|_| ());
        }
    }
}

/// Corpus: every history of length <= 2 over a small mutating alphabet, plus
/// the signed seed.
fn corpus(tier: Tier) -> Vec<(String, Vec<u8>)> {
    let alphabet = vec![
        Op::CreateTable { name: "T1".into(), cols: vec![ColSpec::new("K", Ty::I16).key(), ColSpec::new("S", Ty::Str(8)).nullable()] },
        Op::CreateTable { name: "T2".into(), cols: vec![ColSpec::new("A", Ty::Str(4)).key(), ColSpec::new("B", Ty::I32).nullable()] },
        Op::Insert { table: "T1".into(), rows: vec![vec![Val::Int(1), Val::s("a")], vec![Val::Int(2), Val::Null]] },
        Op::Insert { table: "T2".into(), rows: vec![vec![Val::s("a"), Val::Int(1)]] },
        Op::WriteStream { name: "s1".into(), len: 3, seed: 1 },
        Op::WriteStream { name: "Big".into(), len: 5000, seed: 7 },
        Op::Summary(SumOp::SetAuthor("Jane".into())),
        Op::Summary(SumOp::ClearTitle),
        Op::SetDbCodepage(1252),
        Op::Delete { table: "T1".into(), cond: None },
        Op::DropTable { name: "T1".into() },
    ];
    let maxlen = if tier.thorough() { 3 } else { 2 };
    let mut out = Vec::new();
    let mut seen = std::collections::BTreeSet::new();
    let mut hist: Vec<Vec<usize>> = vec![vec![]];
    for _ in 0..maxlen {
        let mut next = Vec::new();
        for h in &hist {
            for i in 0..alphabet.len() {
                let mut n = h.clone();
                n.push(i);
                next.push(n);
            }
        }
        for h in hist.iter().chain(next.iter()) {
            let mut hh = Harness::create(0).expect("create");
            for &i in h {
                let _ = hh.apply(&alphabet[i]);
            }
            if let Ok(b) = hh.close_into_inner() {
                if seen.insert(b.clone()) {
                    out.push((h.iter().map(|&i| alphabet[i].show()).collect::<Vec<_>>().join(" ; "), b));
                }
            }
        }
        hist = next;
    }
    out.push(("signed seed".into(), crate::e1checks::signed_seed()));
    // files the library did not write: the C09 seed from the independent
    // encoder (3-byte references, pool with holes, no _Validation, code page
    // 1252) and variants (code page id 0, over-counted pool, descending rows)
    out.push(("independently encoded: 3-byte refs, no _Validation".into(), crate::c09::seed_bytes("enc3")));
    {
        use crate::enc::*;
        use crate::spec::{ColSpec as CS, Ty as T};
        let col = |n: &str, ty: T, key: bool| EncCol { spec: if key { CS::new(n, ty).key() } else { CS::new(n, ty).nullable() }, width1_quirk: false };
        for (label, cp, style, order, val) in [
            ("code page id 0, over-counted pool", 0u32, PoolStyle::OverCounted, RowOrder::Ascending, true),
            ("descending rows, duplicate pool entries", 932, PoolStyle::Duplicates, RowOrder::Descending, true),
            ("interleaved rows, holes, no _Validation", 65001, PoolStyle::Holes, RowOrder::Interleaved, false),
        ] {
            let db = EncDb {
                ptype: 1,
                codepage_id: cp,
                long_refs: false,
                pool_style: style,
                with_validation: val,
                row_order: order,
                tables: vec![
                    EncTable { name: "T1".into(), cols: vec![col("K", T::I16, true), col("S", T::Str(8), false)], rows: vec![vec![Val::Int(1), Val::s("a")], vec![Val::Int(2), Val::Null], vec![Val::Int(3), Val::s("a")]] },
                    EncTable { name: "T2".into(), cols: vec![col("A", T::Str(4), true), EncCol { spec: CS::new("B", T::I16).nullable(), width1_quirk: true }], rows: vec![vec![Val::s("a"), Val::Int(5)], vec![Val::s("b"), Val::Null]] },
                ],
                streams: vec![("s1".into(), vec![1, 2, 3]), ("Big".into(), vec![7u8; 5000])],
                summary: default_summary(),
                extra_pool_strings: vec![],
                ghost_strings: vec![],
            };
            out.push((format!("independently encoded: {}", label), encode(&db)));
        }
    }
    for pt in [1u8, 2] {
        let h = Harness::create(pt).expect("create");
        out.push((format!("fresh package type {}", pt), h.close_into_inner().unwrap()));
    }
    out
}

fn run_one(bytes: &[u8], seq: &[usize], close: u8, refuse: bool) -> Option<(String, String)> {
    let (m, peek) = Medium::new(bytes.to_vec());
    peek.with(|s| s.refuse_writes = refuse);
    let r = catch(|| -> Result<(), String> {
        let mut p = msi::Package::open(m).map_err(|e| format!("open: {}", e))?;
        for &op in seq {
            do_read(&mut p, op);
        }
        match close {
            0 => p.flush().map_err(|e| format!("flush: {}", e)),
            1 => p.into_inner().map(|_| ()).map_err(|e| format!("into_inner: {}", e)),
            _ => {
                drop(p);
                Ok(())
            }
        }
    });
    let desc = format!("{} -> close by {} on a {} medium", seq.iter().map(|&i| READ_OPS[i]).collect::<Vec<_>>().join(", "), ["flush", "into_inner", "drop"][close as usize], if refuse { "write-refusing" } else { "read-write" });
    match r {
        Err(p) => Some((format!("panic:{}", panic_site(&p)), format!("{} panicked: {}", desc, p))),
        Ok(res) => {
            let (writes, refused, same) = peek.with(|s| (s.writes, s.refused, s.bytes == bytes));
            let last = seq.last().map(|&i| READ_OPS[i]).unwrap_or("open");
            if writes > 0 {
                Some((format!("write-issued:{}:{}", last, ["flush", "into_inner", "drop"][close as usize]), format!("{}: {} write call(s) reached the medium ({} refused)", desc, writes, refused)))
            } else if !same {
                Some(("bytes-changed".into(), format!("{}: bytes differ although no write call was counted", desc)))
            } else if let Err(e) = res {
                Some((format!("read-only-session-failed:{}", ["flush", "into_inner", "drop"][close as usize]), format!("{}: {}", desc, e)))
            } else {
                None
            }
        }
    }
}

pub fn run(tier: Tier) -> i32 {
    let mut rep = Report::new("C16", tier, "model_checking");
    rep.assume("corpus = every distinct file reachable by <= 2 (thorough 3) mutating operations over an 11-operation alphabet, all three package types, and a seed carrying signature streams; the C02 generator's files are covered by C02's own read-only pass");
    let files = corpus(tier);
    let n = READ_OPS.len();
    let mut seqs: Vec<Vec<usize>> = vec![vec![]];
    for a in 0..n {
        seqs.push(vec![a]);
        for b in 0..n {
            seqs.push(vec![a, b]);
        }
    }
    let seqs3: Vec<Vec<usize>> = if tier.thorough() {
        let mut v = Vec::new();
        for a in 0..n {
            for b in 0..n {
                for c in 0..n {
                    v.push(vec![a, b, c]);
                }
            }
        }
        v
    } else {
        vec![]
    };
    let work: Vec<(usize, &Vec<usize>)> = files
        .iter()
        .enumerate()
        .flat_map(|(fi, _)| seqs.iter().map(move |s| (fi, s)))
        .chain(files.iter().enumerate().filter(|(fi, _)| fi % 2 == 0).flat_map(|(fi, _)| seqs3.iter().map(move |s| (fi, s))))
        .collect();
    let results: Vec<Vec<(String, String, usize, Vec<usize>, u8, bool)>> = work
        .par_iter()
        .map(|(fi, seq)| {
            let mut out = Vec::new();
            for close in 0..3u8 {
                for refuse in [false, true] {
                    if let Some((sig, d)) = run_one(&files[*fi].1, seq, close, refuse) {
                        out.push((sig, d, *fi, (*seq).clone(), close, refuse));
                    }
                }
            }
            out
        })
        .collect();
    let total = work.len() as u64 * 6;
    for r in results {
        for (sig, d, fi, seq, close, refuse) in r {
            rep.violation(sig, format!("{} | file: {}", d, files[fi].0), json!({"kind":"c16","file_history":files[fi].0,"file_hex":crate::e1::hex(&files[fi].1),"seq":seq,"close":close,"refuse":refuse}));
        }
    }
    rep.set("states", files.len() as u64 * (seqs.len() as u64));
    rep.set("transitions", total);
    rep.set("traces_validated_against_impl", total);
    rep.set("evaluations", total);
    rep.set("distinct_nontrivial", work.len());
    rep.set("corpus_files", files.len());
    rep.set("read_only_operations", n);
    rep.set("sequences_per_file", seqs.len());
    rep.set("length_3_sequences_on_every_2nd_file", seqs3.len());
    rep.set("sessions", total);
    rep.set("exhaustive", true);
    rep.set("rule", "every corpus file x every sequence of read-only calls of length <= 2 (thorough: <= 3 on every 2nd file) over 16 read-only operations x {flush, into_inner, drop} x {read-write, write-refusing medium}; oracle: the medium counted zero write calls, its bytes are identical, and the session did not fail. distinct_nontrivial = (file, sequence) pairs");
    rep.sample(json!({"file": files[files.len() / 2].0, "sequence": ["select-all", "inner-join"], "close": "drop"}));
    rep.finish()
}

pub fn replay(doc: &serde_json::Value) {
    let bytes = crate::e1::unhex(doc["file_hex"].as_str().unwrap_or(""));
    let seq: Vec<usize> = serde_json::from_value(doc["seq"].clone()).unwrap_or_default();
    let close = doc["close"].as_u64().unwrap_or(1) as u8;
    let refuse = doc["refuse"].as_bool().unwrap_or(false);
    println!("{:?}", run_one(&bytes, &seq, close, refuse));
}

//! C17 — language codes and tags map consistently.  E2, exhaustive over all
//! 65,536 codes and over bounded tag strings.

use crate::report::{catch, panic_site, Report, Tier};
use msi::Language;
use rayon::prelude::*;
use serde_json::json;
use std::collections::{BTreeMap, BTreeSet};

/// Windows language identifiers (MS-LCID) of languages whose primary id is
/// not shared by several ISO languages, with their standard tags.
const WELL_KNOWN: [(u16, &str); 78] = [
    (1033, "en-US"),
    (2057, "en-GB"),
    (3081, "en-AU"),
    (4105, "en-CA"),
    (5129, "en-NZ"),
    (6153, "en-IE"),
    (1036, "fr-FR"),
    (2060, "fr-BE"),
    (3084, "fr-CA"),
    (4108, "fr-CH"),
    (1031, "de-DE"),
    (2055, "de-CH"),
    (3079, "de-AT"),
    (1041, "ja-JP"),
    (1042, "ko-KR"),
    (1040, "it-IT"),
    (2064, "it-CH"),
    (1043, "nl-NL"),
    (2067, "nl-BE"),
    (1046, "pt-BR"),
    (2070, "pt-PT"),
    (1049, "ru-RU"),
    (1045, "pl-PL"),
    (1029, "cs-CZ"),
    (1030, "da-DK"),
    (1035, "fi-FI"),
    (1032, "el-GR"),
    (1037, "he-IL"),
    (1038, "hu-HU"),
    (1044, "nb-NO"),
    (1053, "sv-SE"),
    (2077, "sv-FI"),
    (1055, "tr-TR"),
    (1054, "th-TH"),
    (1058, "uk-UA"),
    (1026, "bg-BG"),
    (1048, "ro-RO"),
    (1051, "sk-SK"),
    (1060, "sl-SI"),
    (1061, "et-EE"),
    (1062, "lv-LV"),
    (1063, "lt-LT"),
    (1025, "ar-SA"),
    (2058, "es-MX"),
    (1057, "id-ID"),
    (1066, "vi-VN"),
    (1081, "hi-IN"),
    (1065, "fa-IR"),
    (1056, "ur-PK"),
    (1086, "ms-MY"),
    (1039, "is-IS"),
    (1052, "sq-AL"),
    (1059, "be-BY"),
    (1067, "hy-AM"),
    (1069, "eu-ES"),
    (1071, "mk-MK"),
    (1078, "af-ZA"),
    (1079, "ka-GE"),
    (1082, "mt-MT"),
    (1087, "kk-KZ"),
    (1089, "sw-KE"),
    (1097, "ta-IN"),
    (1098, "te-IN"),
    (1099, "kn-IN"),
    (1100, "ml-IN"),
    (1102, "mr-IN"),
    (1104, "mn-MN"),
    (1106, "cy-GB"),
    (1107, "km-KH"),
    (1108, "lo-LA"),
    (1110, "gl-ES"),
    (1115, "si-LK"),
    (1118, "am-ET"),
    (1121, "ne-NP"),
    (1124, "fil-PH"),
    (1134, "lb-LU"),
    (1153, "mi-NZ"),
    (1159, "rw-RW"),
];

/// Identifiers whose standard tag the table may only know as the bare
/// language (the statement allows the bare language tag for an unknown
/// sublanguage).
const WELL_KNOWN_BARE_OK: [(u16, &str); 4] = [(2052, "zh-CN"), (1028, "zh-TW"), (3082, "es-ES"), (1034, "es-ES")];

fn tag_of(code: u16) -> Result<String, String> {
    catch(|| Language::from_code(code).tag().to_string())
}

pub fn run(tier: Tier) -> i32 {
    let mut rep = Report::new("C17", tier, "model_checking");
    rep.assume("the set of tags the library knows is taken to be the image of tag() over all 65,536 codes; a language is 'known' when its bare tag is in that image");
    rep.assume("well-known identifiers: 82 entries from the Windows language identifier reference, excluding primary id 0x1a (shared by hr/sr/bs)");

    // ---- all codes -------------------------------------------------------
    let mut tags: BTreeMap<String, u16> = BTreeMap::new(); // tag -> smallest code
    let mut by_primary: BTreeMap<u16, BTreeSet<String>> = BTreeMap::new();
    let mut code_tag: Vec<String> = Vec::with_capacity(65536);
    for code in 0..=65535u16 {
        let l = Language::from_code(code);
        if l.code() != code {
            rep.violation(
                "code-not-preserved".into(),
                format!("from_code({}).code() = {}", code, l.code()),
                json!({"kind":"c17-code","code":code}),
            );
        }
        match tag_of(code) {
            Err(p) => {
                rep.violation(
                    format!("tag-panic:{}", panic_site(&p)),
                    format!("from_code({}).tag() panicked: {}", code, p),
                    json!({"kind":"c17-code","code":code}),
                );
                code_tag.push(String::new());
            }
            Ok(t) => {
                tags.entry(t.clone()).or_insert(code);
                by_primary.entry(code & 0x3ff).or_default().insert(t.clone());
                code_tag.push(t);
            }
        }
    }
    // structural laws per primary language id
    let mut known_langs: BTreeSet<String> = BTreeSet::new();
    for (prim, ts) in &by_primary {
        let bare = &code_tag[*prim as usize];
        if bare == "und" {
            if ts.len() != 1 {
                rep.violation(
                    "und-primary-with-regional-tags".into(),
                    format!("primary id {:#x} is unknown (tag 'und') yet some sublanguage of it has tags {:?}", prim, ts),
                    json!({"kind":"c17-code","code":prim}),
                );
            }
            continue;
        }
        if bare.contains('-') {
            rep.violation(
                "neutral-sublanguage-has-regional-tag".into(),
                format!("code {} (sublanguage 0) has the regional tag {:?}", prim, bare),
                json!({"kind":"c17-code","code":prim}),
            );
        }
        known_langs.insert(bare.clone());
        for t in ts {
            let lang_part = t.split('-').next().unwrap_or("");
            if lang_part != bare {
                rep.violation(
                    "sublanguage-tag-of-other-language".into(),
                    format!("primary id {:#x}: bare tag {:?} but a sublanguage has tag {:?}", prim, bare, t),
                    json!({"kind":"c17-code","code":prim}),
                );
            }
        }
    }
    // round trip through the tag, for every code
    for code in 0..=65535u16 {
        let t = &code_tag[code as usize];
        if t.is_empty() {
            continue;
        }
        match catch(|| Language::from_tag(t).tag().to_string()) {
            Err(p) => rep.violation(
                format!("from-tag-panic:{}", panic_site(&p)),
                format!("from_tag({:?}) panicked: {}", t, p),
                json!({"kind":"c17-tag","tag":t}),
            ),
            Ok(back) => {
                if &back != t {
                    rep.violation(
                        format!("tag-round-trip:{}", t),
                        format!("code {} has tag {:?}; from_tag of it has tag {:?}", code, t, back),
                        json!({"kind":"c17-tag","tag":t}),
                    );
                }
            }
        }
    }
    // a regional tag names one (language, sublanguage) pair, so at most one
    // code may carry it: any other code with that tag has an unknown
    // sublanguage and must show the bare language tag instead
    {
        let mut carriers: BTreeMap<&String, Vec<u16>> = BTreeMap::new();
        for code in 0..=65535u16 {
            let t = &code_tag[code as usize];
            if t.contains('-') {
                carriers.entry(t).or_default().push(code);
            }
        }
        for (t, codes) in carriers {
            if codes.len() > 1 {
                rep.violation(
                    "regional-tag-on-several-codes".into(),
                    format!("regional tag {:?} is returned for {} different codes (e.g. {:?}); only one (language, sublanguage) pair can be that variant, the others have an unknown sublanguage and must show the bare language tag", t, codes.len(), &codes[..codes.len().min(4)]),
                    json!({"kind":"c17-code","code":codes[1]}),
                );
            }
        }
    }
    // every tag maps to its own code and back
    for (t, &min_code) in &tags {
        if t == "und" {
            continue;
        }
        let l = Language::from_tag(t);
        if l.code() != min_code {
            rep.violation(
                format!("tag-to-code:{}", t),
                format!("from_tag({:?}).code() = {}, but the code carrying that tag is {}", t, l.code(), min_code),
                json!({"kind":"c17-tag","tag":t}),
            );
        }
    }
    // well-known identifiers
    for (code, std_tag) in WELL_KNOWN.iter().chain(WELL_KNOWN_BARE_OK.iter()) {
        let t = &code_tag[*code as usize];
        let bare = std_tag.split('-').next().unwrap();
        if t != std_tag && t != bare {
            rep.violation(
                format!("well-known:{}", code),
                format!("Windows identifier {} is {} but tag() says {:?}", code, std_tag, t),
                json!({"kind":"c17-code","code":code}),
            );
        }
    }
    for (code, std_tag) in WELL_KNOWN.iter() {
        // the six named in the statement must carry the full tag
        if [1033u16, 2057, 1036, 3084, 1031, 1041].contains(code) && &code_tag[*code as usize] != std_tag {
            rep.violation(
                format!("well-known-full:{}", code),
                format!("Windows identifier {} must be {} but tag() says {:?}", code, std_tag, code_tag[*code as usize]),
                json!({"kind":"c17-code","code":code}),
            );
        }
    }

    // ---- tag strings -----------------------------------------------------
    let lower: Vec<char> = if tier.thorough() { ('a'..='z').collect() } else { "aefnrstz".chars().collect() };
    let upper: Vec<char> = if tier.thorough() { ('A'..='Z').collect() } else { "ABCGSUXZ".chars().collect() };
    let mut langs: Vec<String> = Vec::new();
    for a in &lower {
        for b in &lower {
            langs.push(format!("{}{}", a, b));
            for c in &lower {
                langs.push(format!("{}{}{}", a, b, c));
            }
        }
    }
    // every bare two- and three-letter tag takes part in both tiers (with the
    // small region set unless the language is known)
    for a in 'a'..='z' {
        for b in 'a'..='z' {
            let t = format!("{}{}", a, b);
            if !langs.contains(&t) {
                langs.push(t);
            }
        }
    }
    // every known language always takes part
    for k in &known_langs {
        if !langs.contains(k) {
            langs.push(k.clone());
        }
    }
    let all_regions: Vec<String> = {
        let mut v = Vec::new();
        for a in 'A'..='Z' {
            for b in 'A'..='Z' {
                v.push(format!("{}{}", a, b));
            }
        }
        v
    };
    let few_regions: Vec<String> = {
        let mut v = Vec::new();
        for a in &upper {
            for b in &upper {
                v.push(format!("{}{}", a, b));
            }
        }
        v
    };
    let tagset: BTreeSet<String> = tags.keys().cloned().collect();
    let results: Vec<(u64, u64, Vec<(String, String, String)>)> = langs
        .par_iter()
        .map(|lang| {
            let mut n = 0u64;
            let mut nontrivial = 0u64;
            let mut vs = Vec::new();
            let known = known_langs.contains(lang);
            let regions: &Vec<String> = if known || tier.thorough() { &all_regions } else { &few_regions };
            let mut candidates: Vec<String> = vec![lang.clone()];
            for r in regions {
                candidates.push(format!("{}-{}", lang, r));
            }
            // UN M.49 area codes and other numeric regions, for known languages
            if known {
                for n in 0..1000 {
                    candidates.push(format!("{}-{:03}", lang, n));
                }
            }
            // odd shapes
            candidates.push(format!("{}-", lang));
            candidates.push(format!("{}-x", lang));
            candidates.push(format!("{}-Latn-XX", lang));
            candidates.push(format!("{}-{}", lang, lang));
            candidates.push(lang.to_uppercase());
            // every one-character edit of every table tag of this language:
            // a tag that merely begins like, or is a fragment of, a known
            // regional tag has an unknown region
            for t in tagset.iter().filter(|t| t.split('-').next() == Some(lang.as_str()) && t.contains('-')) {
                for c in ('a'..='z').chain('A'..='Z').chain('0'..='9').chain(['-', '_', ' '].into_iter()) {
                    candidates.push(format!("{}{}", t, c));
                }
                let chars: Vec<char> = t.chars().collect();
                candidates.push(chars[..chars.len() - 1].iter().collect());
                for i in lang.len() + 1..chars.len() {
                    for c in ['A', 'Z', 'a', 'z', '0'] {
                        let mut e = chars.clone();
                        if e[i] != c {
                            e[i] = c;
                            candidates.push(e.iter().collect());
                        }
                        let mut ins = chars.clone();
                        ins.insert(i, c);
                        candidates.push(ins.iter().collect());
                    }
                }
                let region: String = chars[lang.len() + 1..].iter().collect();
                candidates.push(format!("{}-{}", t, region));
                candidates.push(format!("{}-posix", t));
                candidates.push(format!("{}-x-{}", lang, region));
                candidates.push(format!("{}--{}", lang, region));
            }
            for s in candidates {
                n += 1;
                let r = catch(|| {
                    let l = Language::from_tag(&s);
                    (l.code(), l.tag().to_string())
                });
                match r {
                    Err(p) => vs.push((format!("from-tag-panic:{}", panic_site(&p)), format!("from_tag({:?}) panicked: {}", s, p), s.clone())),
                    Ok((code, back)) => {
                        let lang_part = s.split('-').next().unwrap_or("");
                        let lang_known = known_langs.contains(lang_part);
                        // whatever the library takes for a known tag must map
                        // back: to itself, or to its bare language part
                        if code != 0 && back != s && back != lang_part {
                            vs.push((
                                format!("tag-to-code-and-back:{}", if back == "und" { "und" } else { "other-tag" }),
                                format!("from_tag({:?}) has code {} but that code's tag is {:?}", s, code, back),
                                s.clone(),
                            ));
                        }
                        if !lang_known {
                            if code != 0 {
                                vs.push((
                                    "unknown-language-not-neutral".into(),
                                    format!("from_tag({:?}) has code {} although language {:?} is unknown", s, code, lang_part),
                                    s.clone(),
                                ));
                            }
                        } else {
                            nontrivial += 1;
                            if tagset.contains(&s) {
                                if back != s {
                                    vs.push((format!("tag-round-trip:{}", s), format!("from_tag({:?}).tag() = {:?}", s, back), s.clone()));
                                }
                            } else if back.contains('-') {
                                // known language, unknown region: must not be a
                                // different known regional variant
                                vs.push((
                                    format!("unknown-region-maps-to-known-variant:{}", lang_part),
                                    format!("from_tag({:?}) has code {} whose tag is the different regional variant {:?}", s, code, back),
                                    s.clone(),
                                ));
                            } else if back != lang_part {
                                vs.push((
                                    "unknown-region-changes-language".into(),
                                    format!("from_tag({:?}) has tag {:?}", s, back),
                                    s.clone(),
                                ));
                            }
                        }
                    }
                }
            }
            (n, nontrivial, vs)
        })
        .collect();
    let mut strings = 0u64;
    let mut nontrivial = 0u64;
    for (n, k, vs) in results {
        strings += n;
        nontrivial += k;
        for (sig, detail, s) in vs {
            rep.violation(sig, detail, json!({"kind":"c17-tag","tag":s}));
        }
    }
    let total = 65536 * 3 + tags.len() as u64 + (WELL_KNOWN.len() + WELL_KNOWN_BARE_OK.len()) as u64 + strings;
    rep.set("states", total);
    rep.set("transitions", total);
    rep.set("traces_validated_against_impl", total);
    rep.set("evaluations", total);
    rep.set("distinct_nontrivial", tags.len() as u64 + nontrivial);
    rep.set("codes", 65536);
    rep.set("distinct_tags", tags.len());
    rep.set("known_languages", known_langs.len());
    rep.set("tag_strings", strings);
    rep.set("tag_strings_with_known_language", nontrivial);
    rep.set("exhaustive", true);
    rep.set("rule", "all 65,536 codes (code preserved, tag total, tag round trip, per-primary-id structure); every tag in the image maps to the smallest code carrying it; 82 identifier/tag pairs from the Windows reference; all strings ll, lll, ll-RR, lll-RR, every three-digit region for known languages (+ odd shapes) over the tier's alphabets, with every known language x all 676 regions in both tiers. distinct_nontrivial = distinct tags + strings whose language part is known");
    rep.sample(json!({"code": 1033, "tag": code_tag[1033]}));
    rep.sample(json!({"tag": "en-XX", "code": Language::from_tag("en-XX").code(), "back": Language::from_tag("en-XX").tag()}));
    rep.sample(json!({"tag": "zz-ZZ", "code": Language::from_tag("zz-ZZ").code()}));
    rep.finish()
}

pub fn replay(doc: &serde_json::Value) {
    if doc["kind"] == "c17-code" {
        let c = doc["code"].as_u64().unwrap() as u16;
        println!("code {} -> tag {:?}", c, tag_of(c));
    } else {
        let t = doc["tag"].as_str().unwrap();
        let l = Language::from_tag(t);
        println!("tag {:?} -> code {} -> tag {:?}", t, l.code(), l.tag());
    }
}

//! C18 — creation times convert to and from Windows timestamps without
//! drift.  E2: exhaustive tick neighbourhoods around every anchor, a regular
//! lattice in between, in memory and through save/reopen.

use crate::medium::Medium;
use crate::report::{catch, panic_site, Report, Tier};
use rayon::prelude::*;
use serde_json::json;
use std::time::{Duration, SystemTime, UNIX_EPOCH};

const EPOCH_TICKS: i128 = 116_444_736_000_000_000; // 1970-01-01 in ticks since 1601
const MAX_TICKS: i128 = u64::MAX as i128;

/// Signed nanoseconds relative to the Unix epoch.
fn to_ns(t: SystemTime) -> i128 {
    match t.duration_since(UNIX_EPOCH) {
        Ok(d) => d.as_nanos() as i128,
        Err(e) => -(e.duration().as_nanos() as i128),
    }
}

fn from_ns(ns: i128) -> Option<SystemTime> {
    if ns >= 0 {
        let secs = (ns / 1_000_000_000) as u128;
        if secs > u64::MAX as u128 {
            return None;
        }
        UNIX_EPOCH.checked_add(Duration::new(secs as u64, (ns % 1_000_000_000) as u32))
    } else {
        let m = -ns;
        let secs = (m / 1_000_000_000) as u128;
        if secs > u64::MAX as u128 {
            return None;
        }
        UNIX_EPOCH.checked_sub(Duration::new(secs as u64, (m % 1_000_000_000) as u32))
    }
}

/// ns relative to Unix epoch of tick `k` since 1601.
fn tick_ns(k: i128) -> i128 {
    (k - EPOCH_TICKS) * 100
}

const LO_NS: i128 = -EPOCH_TICKS * 100; // 1601-01-01
const HI_NS: i128 = (MAX_TICKS - EPOCH_TICKS) * 100; // tick u64::MAX

struct Pk {
    p: msi::Package<Medium>,
}

fn mk() -> Pk {
    let (m, _) = Medium::empty();
    Pk { p: msi::Package::create(msi::PackageType::Installer, m).expect("create") }
}

fn set_get(pk: &mut Pk, t: SystemTime) -> Result<SystemTime, String> {
    catch(|| {
        pk.p.summary_info_mut().set_creation_time(t);
        pk.p.summary_info().creation_time()
    })
    .and_then(|o| o.ok_or_else(|| "GETTER-NONE: creation_time() returned None right after set_creation_time @ -".to_string()))
}

fn set_get_reopen(t: SystemTime) -> Result<SystemTime, String> {
    catch(|| {
        let (m, _) = Medium::empty();
        let mut p = msi::Package::create(msi::PackageType::Installer, m).expect("create");
        p.summary_info_mut().set_creation_time(t);
        let m = p.into_inner().expect("into_inner");
        let p = msi::Package::open(m).expect("open");
        p.summary_info().creation_time()
    })
    .and_then(|o| o.ok_or_else(|| "GETTER-NONE: creation_time() returned None after save + reopen @ -".to_string()))
}

/// The time next to other properties, across flushes of the same package
/// object and a code-page switch that changes the encoded size of the strings
/// stored before it.
fn set_get_reopen_busy(t: SystemTime, script: usize) -> Result<SystemTime, String> {
    catch(|| {
        let (m, _) = Medium::empty();
        let mut p = msi::Package::create(msi::PackageType::Installer, m).expect("create");
        let cp = |id: i32| msi::CodePage::from_id(id).expect("code page");
        match script {
            0 => {
                p.summary_info_mut().set_title("Zo\u{eb}".to_string());
                p.summary_info_mut().set_creation_time(t);
                p.flush().expect("flush");
                p.summary_info_mut().set_codepage(cp(1252));
            }
            1 => {
                p.summary_info_mut().set_codepage(cp(1252));
                p.summary_info_mut().set_author("\u{e9}\u{e9}\u{e9}".to_string());
                p.flush().expect("flush");
                p.summary_info_mut().set_creation_time(t);
                p.flush().expect("flush");
                p.summary_info_mut().set_codepage(cp(65001));
            }
            2 => {
                p.summary_info_mut().set_creation_time(t);
                p.flush().expect("flush");
                p.summary_info_mut().set_comments("c\u{e9}".repeat(3));
                p.flush().expect("flush");
                p.summary_info_mut().clear_comments();
            }
            _ => {
                p.summary_info_mut().set_subject("\u{416}".to_string());
                p.flush().expect("flush");
                p.summary_info_mut().set_creation_time(t);
                p.summary_info_mut().set_codepage(cp(1251));
                p.flush().expect("flush");
                p.summary_info_mut().set_creation_time(t);
            }
        }
        let m = p.into_inner().expect("into_inner");
        let p = msi::Package::open(m).map_err(|e| e.to_string());
        match p {
            Ok(p) => Ok(p.summary_info().creation_time()),
            Err(e) => Err(e),
        }
    })
    .and_then(|r| r.map_err(|e| format!("REOPEN-FAILS: {} @ -", e)))
    .and_then(|o| o.ok_or_else(|| "GETTER-NONE: creation_time() returned None after flushes, a code-page switch, save + reopen @ -".to_string()))
}

/// The time stored behind a comments string of `len` bytes: every position of
/// the eight time bytes relative to the container's buffers and sectors.
fn set_get_reopen_after_comment(t: SystemTime, len: usize) -> Result<SystemTime, String> {
    catch(|| {
        let (m, _) = Medium::empty();
        let mut p = msi::Package::create(msi::PackageType::Installer, m).expect("create");
        p.summary_info_mut().set_comments("c".repeat(len));
        p.summary_info_mut().set_creation_time(t);
        let m = p.into_inner().expect("into_inner");
        match msi::Package::open(m) {
            Ok(p) => Ok(p.summary_info().creation_time()),
            Err(e) => Err(e.to_string()),
        }
    })
    .and_then(|r| r.map_err(|e| format!("REOPEN-FAILS: {} @ -", e)))
    .and_then(|o| o.ok_or_else(|| "GETTER-NONE: creation_time() returned None after save + reopen behind a long comment @ -".to_string()))
}

/// Checks one point; returns (class, violation).
fn check_point(ns: i128, get: &mut dyn FnMut(SystemTime) -> Result<SystemTime, String>, via: &str) -> (u8, Option<(String, String)>) {
    let t = match from_ns(ns) {
        Some(t) => t,
        None => return (9, None), // not representable on this platform
    };
    let r = match get(t) {
        Ok(r) => r,
        Err(p) if p.starts_with("GETTER-NONE") => return (8, Some((format!("time-set-but-getter-returns-none:{}", via), format!("{} ns from the Unix epoch ({}): {}", ns, via, p)))),
        Err(p) if p.starts_with("REOPEN-FAILS") => return (8, Some((format!("time-set-but-package-does-not-reopen:{}", via), format!("{} ns from the Unix epoch ({}): {}", ns, via, p)))),
        Err(p) => return (8, Some((format!("panic:{}:{}", via, panic_site(&p)), format!("{} ns from the Unix epoch ({}) panicked: {}", ns, via, p)))),
    };
    let rn = to_ns(r);
    let (class, ok, what) = if ns < LO_NS {
        (1, rn == LO_NS, "before 1601 must saturate at 1601-01-01")
    } else if ns > HI_NS {
        (2, rn == HI_NS, "after the 64-bit tick maximum must saturate at it")
    } else {
        (0, (rn - ns).abs() < 100 && rn >= LO_NS && rn <= HI_NS, "must be within 100 ns of the time set")
    };
    if !ok {
        let region = if ns < LO_NS { "below-range" } else if ns > HI_NS { "above-range" } else if ns < 0 { "before-1970" } else { "after-1970" };
        return (class, Some((format!("drift:{}:{}", via, region), format!("set {} ns, got {} ns (difference {}): {}", ns, rn, rn - ns, what))));
    }
    // idempotence: setting the returned time returns it unchanged
    match get(r) {
        Ok(r2) => {
            if r2 != r {
                return (class, Some((format!("not-idempotent:{}", via), format!("set {} ns -> {} ns -> set again -> {} ns", ns, rn, to_ns(r2)))));
            }
        }
        Err(p) => return (8, Some((format!("panic:{}:{}", via, panic_site(&p)), format!("re-setting {} ns panicked: {}", rn, p)))),
    }
    (class, None)
}

fn anchors() -> Vec<(String, i128)> {
    let mut v: Vec<(String, i128)> = vec![
        ("1601-01-01".into(), LO_NS),
        ("1970-01-01".into(), 0),
        ("tick-max".into(), HI_NS),
        ("i64-max-ticks".into(), tick_ns(i64::MAX as i128)),
    ];
    for k in 0..64 {
        v.push((format!("tick-2^{}", k), tick_ns(1i128 << k)));
    }
    // second boundaries far from the epoch on both sides
    v.push(("year-1900".into(), -2_208_988_800i128 * 1_000_000_000));
    v.push(("year-2038".into(), 2_147_483_648i128 * 1_000_000_000));
    v.push(("year-9999".into(), 253_402_300_799i128 * 1_000_000_000));
    v
}

pub fn run(tier: Tier) -> i32 {
    let mut rep = Report::new("C18", tier, "model_checking");
    rep.assume("x86-64 Linux SystemTime (i64 seconds + nanoseconds); platform extremes are reached with checked_add/checked_sub");
    rep.assume("the lattice between the anchors is regular, not random: the conversion is piecewise linear with breakpoints only at tick and second boundaries and at the saturation ends, which the anchor neighbourhoods cover tick by tick");
    let radius: i128 = if tier.thorough() { 20000 } else { 200 };
    let an = anchors();

    // ---- in-memory: every tick in +-radius around each anchor x sub-tick ns
    let mem: Vec<(u64, [u64; 10], Vec<(String, String, i128)>)> = an
        .par_iter()
        .map(|(_, a)| {
            let mut pk = mk();
            let mut n = 0u64;
            let mut classes = [0u64; 10];
            let mut vs = Vec::new();
            let mut prev: Option<(i128, i128)> = None;
            for dt in -radius..=radius {
                for sub in 0..200i128 {
                    let ns = a + dt * 100 + sub;
                    let mut g = |t: SystemTime| set_get(&mut pk, t);
                    let (c, v) = check_point(ns, &mut g, "memory");
                    n += 1;
                    classes[c as usize] += 1;
                    if let Some((sig, d)) = v {
                        if vs.len() < 50 {
                            vs.push((sig, d, ns));
                        }
                    } else if c != 9 {
                        // monotonic on consecutive points
                        let r = match set_get(&mut pk, from_ns(ns).unwrap()) { Ok(t) => to_ns(t), Err(_) => continue };
                        if let Some((pns, pr)) = prev {
                            if pns <= ns && pr > r && vs.len() < 50 {
                                vs.push(("not-monotonic:memory".into(), format!("{} ns -> {} but later {} ns -> {}", pns, pr, ns, r), ns));
                            }
                        }
                        prev = Some((ns, r));
                    }
                }
            }
            (n, classes, vs)
        })
        .collect();
    let mut total = 0u64;
    let mut classes = [0u64; 10];
    for (n, c, vs) in mem {
        total += n;
        for i in 0..10 {
            classes[i] += c[i];
        }
        for (sig, d, ns) in vs {
            rep.violation(sig, d, json!({"kind":"c18","ns": ns.to_string(), "via":"memory"}));
        }
    }

    // ---- platform extremes -----------------------------------------------
    let mut extremes: Vec<i128> = Vec::new();
    {
        // largest / smallest SystemTime reachable
        let max = UNIX_EPOCH.checked_add(Duration::new(i64::MAX as u64, 999_999_999));
        let min = UNIX_EPOCH.checked_sub(Duration::new(i64::MAX as u64, 0)).and_then(|t| t.checked_sub(Duration::new(1, 0)));
        for t in [max, min].into_iter().flatten() {
            extremes.push(to_ns(t));
        }
        for s in [i64::MAX as i128 - 1, 1i128 << 62, 1i128 << 55, 1i128 << 50] {
            extremes.push(s * 1_000_000_000);
            extremes.push(-s * 1_000_000_000);
        }
        for d in [-100i128, -99, -1, 1, 99, 100, 1_000_000_000] {
            extremes.push(LO_NS + d);
            extremes.push(HI_NS + d);
        }
    }
    {
        let mut pk = mk();
        for ns in &extremes {
            let mut g = |t: SystemTime| set_get(&mut pk, t);
            let (c, v) = check_point(*ns, &mut g, "memory");
            total += 1;
            classes[c as usize] += 1;
            if let Some((sig, d)) = v {
                rep.violation(sig, d, json!({"kind":"c18","ns": ns.to_string(), "via":"memory"}));
            }
        }
    }

    // ---- lattice of whole seconds between 1601 and 60056 -------------------
    let lattice_n: i128 = if tier.thorough() { 60_000_000 } else { 1_000_000 };
    let span = HI_NS - LO_NS;
    let step = span / lattice_n;
    let chunks: Vec<i128> = (0..64).collect();
    let lat: Vec<(u64, Vec<(String, String, i128)>)> = chunks
        .par_iter()
        .map(|ch| {
            let mut pk = mk();
            let mut n = 0u64;
            let mut vs = Vec::new();
            let per = lattice_n / 64;
            let mut prev: Option<(i128, i128)> = None;
            for i in (ch * per)..((ch + 1) * per) {
                let base = LO_NS + i * step;
                let sec = base.div_euclid(1_000_000_000) * 1_000_000_000;
                for nanos in [0i128, 99, 100, 999_999_900, 999_999_999] {
                    let ns = sec + nanos;
                    if ns < LO_NS || ns > HI_NS {
                        continue;
                    }
                    let mut g = |t: SystemTime| set_get(&mut pk, t);
                    let (_, v) = check_point(ns, &mut g, "memory");
                    n += 1;
                    if let Some((sig, d)) = v {
                        if vs.len() < 20 {
                            vs.push((sig, d, ns));
                        }
                    } else {
                        let r = match set_get(&mut pk, from_ns(ns).unwrap()) { Ok(t) => to_ns(t), Err(_) => continue };
                        if let Some((pns, pr)) = prev {
                            if pns <= ns && pr > r && vs.len() < 20 {
                                vs.push(("not-monotonic:memory".into(), format!("{} ns -> {} but later {} ns -> {}", pns, pr, ns, r), ns));
                            }
                        }
                        prev = Some((ns, r));
                    }
                }
            }
            (n, vs)
        })
        .collect();
    let mut lattice_points = 0u64;
    for (n, vs) in lat {
        lattice_points += n;
        for (sig, d, ns) in vs {
            rep.violation(sig, d, json!({"kind":"c18","ns": ns.to_string(), "via":"memory"}));
        }
    }
    classes[0] += lattice_points;
    total += lattice_points;

    // ---- through save + reopen: anchor neighbourhoods ----------------------
    let rr: i128 = if tier.thorough() { 60 } else { 8 };
    let mut reopen_points: Vec<i128> = Vec::new();
    for (_, a) in &an {
        for dt in -rr..=rr {
            for sub in [0i128, 1, 99] {
                reopen_points.push(a + dt * 100 + sub);
            }
        }
    }
    reopen_points.extend(extremes.iter().cloned());
    let ro: Vec<Option<(String, String, i128)>> = reopen_points
        .par_iter()
        .map(|ns| {
            let mut g = |t: SystemTime| set_get_reopen(t);
            let (_, v) = check_point(*ns, &mut g, "reopen");
            v.map(|(s, d)| (s, d, *ns))
        })
        .collect();
    for v in ro.into_iter().flatten() {
        rep.violation(v.0, v.1, json!({"kind":"c18","ns": v.2.to_string(), "via":"reopen"}));
    }
    total += reopen_points.len() as u64;
    // the same through four busier sessions (other properties, flushes of the
    // same object, code-page switches) at the anchors themselves
    let busy: Vec<(i128, usize)> = an.iter().flat_map(|(_, a)| (0..4usize).flat_map(move |sc| [(*a, sc), (*a + 100, sc), (*a - 100, sc)])).collect();
    let rb: Vec<Option<(String, String, i128, usize)>> = busy
        .par_iter()
        .map(|(ns, sc)| {
            let mut g = |t: SystemTime| set_get_reopen_busy(t, *sc);
            let (_, v) = check_point(*ns, &mut g, "busy-session");
            v.map(|(s, d)| (s, d, *ns, *sc))
        })
        .collect();
    for v in rb.into_iter().flatten() {
        rep.violation(v.0, v.1, json!({"kind":"c18","ns": v.2.to_string(), "via":"busy", "script": v.3}));
    }
    total += busy.len() as u64;
    rep.set("busy_session_points", busy.len());
    // one fixed time behind a comments string of every length 0..=8400 (and
    // around 16 Ki): the time's bytes take every offset in the stream
    let fixed: i128 = 1_600_000_000_i128 * 1_000_000_000 + 123_456_700;
    let lens: Vec<usize> = (0..=8400usize).chain(16200..=16500).collect();
    let rc: Vec<Option<(String, String, usize)>> = lens
        .par_iter()
        .map(|len| {
            let mut g = |t: SystemTime| set_get_reopen_after_comment(t, *len);
            let (_, v) = check_point(fixed, &mut g, "behind-a-long-string");
            v.map(|(s, d)| (s, d, *len))
        })
        .collect();
    for v in rc.into_iter().flatten() {
        rep.violation(v.0, format!("{} (comments string of {} bytes before the time)", v.1, v.2), json!({"kind":"c18","ns": fixed.to_string(), "via":"comment", "len": v.2}));
    }
    total += lens.len() as u64;
    rep.set("stream_offset_points", lens.len());

    rep.set("states", total);
    rep.set("transitions", total * 2);
    rep.set("traces_validated_against_impl", total);
    rep.set("evaluations", total);
    rep.set("distinct_nontrivial", classes[0] + classes[1] + classes[2]);
    rep.set("in_range_points", classes[0]);
    rep.set("below_range_points", classes[1]);
    rep.set("above_range_points", classes[2]);
    rep.set("not_representable_on_platform", classes[9]);
    rep.set("anchors", an.len());
    rep.set("tick_radius", radius as i64);
    rep.set("lattice_points", lattice_points);
    rep.set("reopen_points", reopen_points.len());
    rep.set("exhaustive", true);
    rep.set("rule", "for each of 71 anchors (1601, 1970, tick max, i64 max, every 2^k ticks, 3 calendar years): every tick within the radius x every sub-tick nanosecond 0..199 (set, get, set again, monotonic on consecutive points); platform SystemTime extremes; a regular lattice of whole seconds x 5 nanosecond values between 1601 and 60056; anchor neighbourhoods and extremes also through save + reopen; the anchors also through four sessions with other properties, flushes of the same package object and code-page switches. distinct_nontrivial = points inside or beyond the range that the platform can represent (each is a distinct time)");
    rep.sample(json!({"set_ns": -1, "got_ns": set_get(&mut mk(), from_ns(-1).unwrap()).map(|t| to_ns(t).to_string()).unwrap_or_default()}));
    rep.sample(json!({"set_ns": (LO_NS - 1).to_string(), "got_ns": set_get(&mut mk(), from_ns(LO_NS - 1).unwrap()).map(|t| to_ns(t).to_string()).unwrap_or_default()}));
    rep.finish()
}

pub fn replay(doc: &serde_json::Value) {
    let ns: i128 = doc["ns"].as_str().unwrap().parse().unwrap();
    let via = doc["via"].as_str().unwrap_or("memory").to_string();
    let mut pk = mk();
    let script = doc["script"].as_u64().unwrap_or(0) as usize;
    let clen = doc["len"].as_u64().unwrap_or(0) as usize;
    let mut g = |t: SystemTime| if via == "memory" { set_get(&mut pk, t) } else if via == "busy" { set_get_reopen_busy(t, script) } else if via == "comment" { set_get_reopen_after_comment(t, clen) } else { set_get_reopen(t) };
    println!("{:?}", check_point(ns, &mut g, &via).1);
}

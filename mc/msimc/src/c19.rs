//! C19 — printed queries mean what the query objects mean.
//! E2: every expression tree up to depth 2 (thorough: plus depth-3 chains) is
//! built as msi::Expr, printed, parsed back with the precedence parser of
//! val.rs, rebuilt as msi::Expr, and both are evaluated by the library on 49
//! real rows.  Queries: the parsed structure must equal the generating
//! description.

use crate::medium::Medium;
use crate::report::{catch, Report, Tier};
use crate::val::*;
use rayon::prelude::*;
use serde_json::json;
use std::collections::BTreeSet;

fn leaves(tier: Tier) -> Vec<E> {
    if tier.thorough() {
        vec![E::col("a"), E::col("b"), E::int(1), E::str("s"), E::str(""), E::null()]
    } else {
        vec![E::col("a"), E::col("b"), E::int(1), E::str("s"), E::str("")]
    }
}

fn depth_le1(leaves: &[E]) -> Vec<E> {
    let mut out: Vec<E> = leaves.to_vec();
    for op in ALL_UN {
        for l in leaves {
            out.push(E::un(op, l.clone()));
        }
    }
    for op in ALL_BIN {
        for l in leaves {
            for r in leaves {
                out.push(E::bin(op, l.clone(), r.clone()));
            }
        }
    }
    out
}

/// 49 rows: (a, b) over {null,0,1,2,-1} x {null,"x"} kinds, held in four
/// real tables (a column has one type).
fn make_rows() -> Vec<msi::Row> {
    let (m, _) = Medium::empty();
    let mut p = msi::Package::create(msi::PackageType::Installer, m).expect("create");
    let ints = [Val::Null, Val::Int(0), Val::Int(1), Val::Int(2), Val::Int(-1)];
    let strs = [Val::Null, Val::s("x")];
    let mut rows = Vec::new();
    for (ti, (aint, bint)) in [(true, true), (true, false), (false, true), (false, false)].iter().enumerate() {
        let name = format!("T{}", ti);
        let mk = |n: &str, is_int: bool| {
            if is_int {
                msi::Column::build(n).nullable().int32()
            } else {
                msi::Column::build(n).nullable().string(0)
            }
        };
        p.create_table(
            name.clone(),
            vec![msi::Column::build("k").primary_key().int16(), mk("a", *aint), mk("b", *bint)],
        )
        .expect("create_table");
        let av: &[Val] = if *aint { &ints } else { &strs };
        let bv: &[Val] = if *bint { &ints } else { &strs };
        let mut k = 0;
        let mut ins = msi::Insert::into(name.clone());
        for a in av {
            for b in bv {
                k += 1;
                ins = ins.row(vec![msi::Value::Int(k), a.to_msi(), b.to_msi()]);
            }
        }
        p.insert_rows(ins).expect("insert");
        rows.extend(p.select_rows(msi::Select::table(name)).expect("select"));
    }
    rows
}

fn top(e: &E) -> String {
    match e {
        E::Lit(_) => "lit".into(),
        E::Col(_) => "col".into(),
        E::Un(op, _) => format!("{:?}", op),
        E::Bin(op, _, _) => format!("{:?}", op),
    }
}

fn sig_shape(e: &E) -> String {
    match e {
        E::Un(op, a) => format!("{:?}({})", op, top(a)),
        E::Bin(op, a, b) => format!("{:?}({},{})", op, top(a), top(b)),
        other => top(other),
    }
}

struct Res {
    class: u8, // 0 ok-same-tree, 1 ok-different-tree-same-meaning, 2 violation
    needs_parens: bool,
    violation: Option<(String, String)>,
}

fn check_expr(e: &E, rows: &[msi::Row]) -> Res {
    let xo = match catch(|| e.to_msi()) {
        Ok(x) => x,
        Err(p) => {
            return Res {
                class: 2,
                needs_parens: false,
                violation: Some((format!("panic-build:{}", sig_shape(e)), format!("building {} panicked: {}", e.show(), p))),
            }
        }
    };
    let text = xo.to_string();
    let parsed = match parse_expr(&text) {
        Ok(p) => p,
        Err(err) => {
            return Res {
                class: 2,
                needs_parens: text.contains('('),
                violation: Some((
                    format!("unparseable:{}", sig_shape(e)),
                    format!("{} prints as `{}` which the grammar cannot read: {}", e.show(), text, err),
                )),
            }
        }
    };
    let xp = match catch(|| parsed.to_msi()) {
        Ok(x) => x,
        Err(p) => {
            return Res {
                class: 2,
                needs_parens: false,
                violation: Some((format!("panic-rebuild:{}", sig_shape(e)), format!("rebuilding {} panicked: {}", parsed.show(), p))),
            }
        }
    };
    for row in rows {
        let vo = catch(|| xo.eval(row));
        let vp = catch(|| xp.eval(row));
        let same = match (&vo, &vp) {
            (Ok(a), Ok(b)) => a == b,
            _ => false,
        };
        if !same {
            return Res {
                class: 2,
                needs_parens: text.contains('('),
                violation: Some((
                    format!("meaning-changed:{}", sig_shape(e)),
                    format!(
                        "{} prints as `{}`, which reads as {}; on row (a={}, b={}) the object gives {:?} and the text gives {:?}",
                        e.show(),
                        text,
                        parsed.show(),
                        row["a"],
                        row["b"],
                        vo,
                        vp
                    ),
                )),
            };
        }
    }
    Res { class: if &parsed == e { 0 } else { 1 }, needs_parens: text.contains('('), violation: None }
}

fn tree_at(d1: &[E], idx: usize) -> E {
    let n = d1.len();
    let un_total = ALL_UN.len() * n;
    if idx < un_total {
        E::un(ALL_UN[idx / n], d1[idx % n].clone())
    } else {
        let j = idx - un_total;
        let op = ALL_BIN[j / (n * n)];
        let r = j % (n * n);
        E::bin(op, d1[r / n].clone(), d1[r % n].clone())
    }
}

fn chains() -> Vec<E> {
    // depth-3 chains over column leaves: op1(op2(op3(..))) with every side
    // choice for the chain child of a binary node.
    #[derive(Clone, Copy)]
    enum O {
        U(Un),
        B(Bin),
    }
    let mut ops: Vec<O> = ALL_UN.iter().map(|u| O::U(*u)).collect();
    ops.extend(ALL_BIN.iter().map(|b| O::B(*b)));
    let leaf_a = E::col("a");
    let leaf_b = E::col("b");
    fn wrap(o: O, child: E, other: &E) -> Vec<E> {
        match o {
            O::U(u) => vec![E::un(u, child)],
            O::B(b) => vec![E::bin(b, child.clone(), other.clone()), E::bin(b, other.clone(), child)],
        }
    }
    let mut out = Vec::new();
    for o3 in &ops {
        let inner: Vec<E> = match o3 {
            O::U(u) => vec![E::un(*u, leaf_a.clone())],
            O::B(b) => vec![E::bin(*b, leaf_a.clone(), leaf_b.clone())],
        };
        for i in inner {
            for o2 in &ops {
                for m in wrap(*o2, i.clone(), &leaf_b) {
                    for o1 in &ops {
                        out.extend(wrap(*o1, m.clone(), &leaf_a));
                    }
                }
            }
        }
    }
    out
}

// ------------------------------------------------------------------------- //

#[derive(Clone, Debug, serde::Serialize, serde::Deserialize)]
enum Q {
    Select(Sel),
    Delete(String, Option<E>),
    Insert(String, Vec<Vec<Val>>),
    Update(String, Vec<(String, Val)>, Option<E>),
}

fn conds() -> Vec<E> {
    vec![
        E::bin(Bin::Eq, E::col("A.x"), E::col("B.u")),
        E::bin(Bin::And, E::bin(Bin::Lt, E::col("A.x"), E::int(2)), E::un(Un::Not, E::col("B.v"))),
        E::bin(Bin::Or, E::col("x"), E::bin(Bin::Eq, E::col("y"), E::str("s"))),
        E::bin(Bin::Eq, E::un(Un::Not, E::col("x")), E::int(0)),
        // conjunctions (given as one with() call and as one call per conjunct)
        // whose conjuncts bind weaker than AND
        E::bin(Bin::And, E::bin(Bin::Or, E::col("x"), E::bin(Bin::Eq, E::col("y"), E::str("s"))), E::bin(Bin::Lt, E::col("x"), E::int(2))),
        E::bin(Bin::And, E::bin(Bin::Lt, E::col("x"), E::int(2)), E::bin(Bin::Or, E::col("x"), E::col("y"))),
        E::bin(Bin::And, E::bin(Bin::And, E::bin(Bin::Or, E::col("x"), E::col("y")), E::un(Un::Not, E::col("y"))), E::bin(Bin::Or, E::col("y"), E::int(0))),
    ]
}

fn operands() -> Vec<Sel> {
    let c = conds();
    vec![
        Sel::table("A"),
        Sel::table("B"),
        Sel::Wrap { from: Box::new(Sel::table("A")), cols: vec!["x".into()], cond: None },
        Sel::Wrap { from: Box::new(Sel::table("B")), cols: vec![], cond: Some(c[2].clone()) },
        Sel::Wrap { from: Box::new(Sel::table("A")), cols: vec!["y".into(), "x".into()], cond: Some(c[3].clone()) },
        Sel::Wrap { from: Box::new(Sel::table("A")), cols: vec![], cond: Some(c[4].clone()) },
    ]
}

fn selects() -> Vec<Sel> {
    let c = conds();
    let ops0 = operands();
    let mut joins1 = Vec::new();
    for l in &ops0 {
        for r in &ops0 {
            for on in &c[..2] {
                joins1.push(Sel::Inner(Box::new(l.clone()), Box::new(r.clone()), on.clone()));
                joins1.push(Sel::Left(Box::new(l.clone()), Box::new(r.clone()), on.clone()));
            }
        }
    }
    // operands of depth-2 joins: tables, wrapped tables, bare joins, wrapped joins
    let mut ops1: Vec<Sel> = ops0.clone();
    for j in joins1.iter().step_by(7) {
        ops1.push(j.clone());
        ops1.push(Sel::Wrap { from: Box::new(j.clone()), cols: vec!["A.x".into()], cond: Some(c[0].clone()) });
    }
    let mut joins2 = Vec::new();
    for l in &ops1 {
        for r in &ops1 {
            if matches!(l, Sel::Table(_) | Sel::Wrap { .. }) && matches!(r, Sel::Table(_)) {
                continue; // already in joins1
            }
            joins2.push(Sel::Inner(Box::new(l.clone()), Box::new(r.clone()), c[0].clone()));
            joins2.push(Sel::Left(Box::new(l.clone()), Box::new(r.clone()), c[1].clone()));
        }
    }
    let mut out: Vec<Sel> = Vec::new();
    let bases: Vec<Sel> = ops0.iter().take(2).cloned().chain(joins1).chain(joins2).collect();
    for b in bases {
        out.push(b.clone());
        for cols in [vec![], vec!["A.x".to_string()], vec!["A.x".to_string(), "B.u".to_string()]] {
            for cond in [None, Some(c[1].clone())] {
                if cols.is_empty() && cond.is_none() {
                    continue;
                }
                out.push(Sel::Wrap { from: Box::new(b.clone()), cols: cols.clone(), cond });
            }
        }
    }
    out
}

fn queries() -> Vec<Q> {
    let c = conds();
    let mut out: Vec<Q> = selects().into_iter().map(Q::Select).collect();
    let long255 = "x".repeat(255);
    let long256 = "y".repeat(256);
    let long5000 = "z".repeat(5000);
    let lits = [Val::Int(1), Val::Int(-5), Val::Null, Val::s("s"), Val::s(""), Val::s("two words"), Val::Int(i32::MAX), Val::s(&long255), Val::s(&long256), Val::s(&long5000), Val::s("Caf\u{e9} Cr\u{e8}me"), Val::s("\u{395}\u{3bb}\u{3bb}\u{3b7}\u{3bd}\u{3b9}\u{3ba}\u{3ac} \u{4e2d}\u{6587}")];
    let long_cond = E::bin(Bin::Eq, E::col("y"), E::str(&"w".repeat(300)));
    let accent_cond = E::bin(Bin::Eq, E::col("y"), E::str("\u{dc}ber Stra\u{df}e"));
    for cond in [None, Some(c[2].clone()), Some(c[3].clone()), Some(c[4].clone()), Some(c[5].clone()), Some(c[6].clone()), Some(long_cond), Some(accent_cond)] {
        out.push(Q::Select(Sel::Wrap { from: Box::new(Sel::table("A")), cols: vec![], cond: cond.clone() }));
        out.push(Q::Delete("A".into(), cond.clone()));
        for a in &lits {
            out.push(Q::Update("A".into(), vec![("x".into(), a.clone())], cond.clone()));
            for b in &lits {
                out.push(Q::Update("A".into(), vec![("x".into(), a.clone()), ("y".into(), b.clone())], cond.clone()));
            }
        }
    }
    out.push(Q::Insert("A".into(), vec![]));
    for a in &lits {
        out.push(Q::Insert("A".into(), vec![vec![a.clone()]]));
        for b in &lits {
            out.push(Q::Insert("A".into(), vec![vec![a.clone(), b.clone()]]));
            out.push(Q::Insert("A".into(), vec![vec![a.clone()], vec![b.clone()]]));
            out.push(Q::Insert("A".into(), vec![vec![a.clone(), b.clone()], vec![b.clone(), a.clone()]]));
        }
    }
    out
}

/// The text of a printed condition must denote an equivalent expression;
/// structural equality is too strict (constant folding, redundant parens), so
/// conditions are compared by evaluation over a small value domain for every
/// column they mention.
fn cond_equiv(a: &Option<E>, b: &Option<E>) -> bool {
    match (a, b) {
        (None, None) => true,
        (Some(x), Some(y)) => {
            let mut cols = BTreeSet::new();
            x.columns(&mut cols);
            let mut cols2 = BTreeSet::new();
            y.columns(&mut cols2);
            if cols != cols2 {
                return false;
            }
            let cols: Vec<String> = cols.into_iter().collect();
            let dom = [Val::Null, Val::Int(0), Val::Int(1), Val::Int(2), Val::s("s"), Val::s("")];
            let n = cols.len();
            let total = dom.len().pow(n as u32);
            for i in 0..total {
                let mut k = i;
                let mut asg = Vec::new();
                for _ in 0..n {
                    asg.push(dom[k % dom.len()].clone());
                    k /= dom.len();
                }
                let look = |name: &str| -> Val {
                    cols.iter().position(|c| c == name).map(|p| asg[p].clone()).unwrap_or(Val::Null)
                };
                if ref_eval(x, &look) != ref_eval(y, &look) {
                    return false;
                }
            }
            true
        }
        _ => false,
    }
}

fn select_equiv(a: &ParsedSelect, b: &ParsedSelect) -> bool {
    a.cols == b.cols && cond_equiv(&a.cond, &b.cond) && from_equiv(&a.from, &b.from)
}

fn from_equiv(a: &ParsedFrom, b: &ParsedFrom) -> bool {
    match (a, b) {
        (ParsedFrom::Table(x), ParsedFrom::Table(y)) => x == y,
        (ParsedFrom::Sub(x), ParsedFrom::Sub(y)) => select_equiv(x, y),
        (
            ParsedFrom::Join { left_join: l1, lhs: a1, rhs: b1, on: o1 },
            ParsedFrom::Join { left_join: l2, lhs: a2, rhs: b2, on: o2 },
        ) => l1 == l2 && from_equiv(a1, a2) && from_equiv(b1, b2) && cond_equiv(&Some(o1.clone()), &Some(o2.clone())),
        _ => false,
    }
}

fn check_query(q: &Q, split: bool) -> Option<(String, String)> {
    let parts = |c: &E| -> Vec<msi::Expr> {
        if split {
            c.conjuncts().into_iter().map(|e| e.to_msi()).collect()
        } else {
            vec![c.to_msi()]
        }
    };
    let (text, kind) = match catch(|| match q {
        Q::Select(s) => (if split { s.to_msi_split().to_string() } else { s.to_msi().to_string() }, "select"),
        Q::Delete(t, c) => {
            let mut d = msi::Delete::from(t.clone());
            if let Some(c) = c {
                for e in parts(c) {
                    d = d.with(e);
                }
            }
            (d.to_string(), "delete")
        }
        Q::Insert(t, rows) => {
            let mut i = msi::Insert::into(t.clone());
            for r in rows {
                i = i.row(r.iter().map(|v| v.to_msi()).collect());
            }
            (i.to_string(), "insert")
        }
        Q::Update(t, sets, c) => {
            let mut u = msi::Update::table(t.clone());
            for (n, v) in sets {
                u = u.set(n.clone(), v.to_msi());
            }
            if let Some(c) = c {
                for e in parts(c) {
                    u = u.with(e);
                }
            }
            (u.to_string(), "update")
        }
    }) {
        Ok(x) => x,
        Err(p) => return Some(("panic-print-query".into(), format!("printing {:?} panicked: {}", q, p))),
    };
    let parsed = match parse_query(&text) {
        Ok(p) => p,
        Err(e) => return Some((format!("unparseable-{}", kind), format!("`{}` cannot be read by the grammar: {}", text, e))),
    };
    let ok = match (q, &parsed) {
        (Q::Select(s), ParsedQuery::Select(ps)) => select_equiv(&expected_select(s), ps),
        (Q::Delete(t, c), ParsedQuery::Delete { table, cond }) => t == table && cond_equiv(c, cond),
        (Q::Insert(t, rows), ParsedQuery::Insert { table, rows: prows }) => t == table && rows == prows,
        (Q::Update(t, sets, c), ParsedQuery::Update { table, sets: psets, cond }) => {
            t == table && sets == psets && cond_equiv(c, cond)
        }
        _ => false,
    };
    if ok {
        None
    } else {
        Some((
            format!("structure-changed-{}{}", kind, if split { ":one-with-per-conjunct" } else { "" }),
            format!("query {:?}{} prints as `{}`, which reads as {:?}", q, if split { " (built with one with() call per conjunct)" } else { "" }, text, parsed),
        ))
    }
}

pub fn run(tier: Tier) -> i32 {
    let mut rep = Report::new("C19", tier, "model_checking");
    rep.assume("the grammar is read by the precedence parser in val.rs: ladder OR<AND<NOT<comparison<|<^<&<shifts<+-<*/<unary, binary levels left-associative, prefix operators accepted wherever an operand may start (most permissive reading of msiquery.pest, which has no '^' rule and allows one comparison/shift per level)");
    rep.assume("identifiers and string literals need no escaping; updates have at least one assignment (the grammar has no text form for none)");
    let lv = leaves(tier);
    let d1 = depth_le1(&lv);
    let n = d1.len();
    let total = ALL_UN.len() * n + ALL_BIN.len() * n * n;
    let results: Vec<(usize, Res)> = (0..total)
        .into_par_iter()
        .map_init(make_rows, |rows, idx| (idx, check_expr(&tree_at(&d1, idx), rows)))
        .filter(|(_, r)| r.class != 0 || r.needs_parens)
        .collect();
    let mut same_tree = total as i64;
    let mut diff_tree = 0i64;
    let mut with_parens = 0i64;
    for (idx, r) in results {
        if r.needs_parens {
            with_parens += 1;
        }
        if r.class != 0 {
            same_tree -= 1;
        }
        if r.class == 1 {
            diff_tree += 1;
        }
        if let Some((sig, detail)) = r.violation {
            let e = tree_at(&d1, idx);
            rep.violation(sig, detail, json!({"kind":"c19-expr","expr": e}));
        }
    }
    // the depth<=1 trees themselves
    let rows = make_rows();
    for e in &d1 {
        if let Some((sig, detail)) = check_expr(e, &rows).violation {
            rep.violation(sig, detail, json!({"kind":"c19-expr","expr": e}));
        }
    }
    let mut chain_n = 0usize;
    if tier.thorough() {
        let ch = chains();
        chain_n = ch.len();
        let rs: Vec<(usize, Res)> = ch
            .par_iter()
            .enumerate()
            .map_init(make_rows, |rows, (i, e)| (i, check_expr(e, rows)))
            .filter(|(_, r)| r.violation.is_some())
            .collect();
        for (i, r) in rs {
            let (sig, detail) = r.violation.unwrap();
            rep.violation(format!("chain:{}", sig), detail, json!({"kind":"c19-expr","expr": ch[i]}));
        }
    }
    let qs = queries();
    for q in &qs {
        for split in [false, true] {
            if let Some((sig, detail)) = check_query(q, split) {
                rep.violation(sig, detail, json!({"kind":"c19-query","query": q, "split": split}));
            }
        }
    }
    let evals = total + d1.len() + chain_n;
    rep.set("states", evals + qs.len());
    rep.set("transitions", (evals * 49 * 2) + qs.len());
    rep.set("traces_validated_against_impl", evals + qs.len());
    rep.set("evaluations", evals + qs.len());
    rep.set("distinct_nontrivial", with_parens);
    rep.set("expression_trees", evals);
    rep.set("depth_le1_trees", d1.len());
    rep.set("depth3_chains", chain_n);
    rep.set("trees_printed_with_parentheses", with_parens);
    rep.set("trees_reparsed_to_identical_tree", same_tree);
    rep.set("trees_reparsed_to_different_but_equivalent_tree", diff_tree);
    rep.set("queries", qs.len());
    rep.set("rows_per_tree", 49);
    rep.set("exhaustive", true);
    rep.set("rule", format!("all expression trees of depth <= 2 over 3 prefix + 17 binary operators and leaves {:?} (index space enumerated completely), thorough adds every depth-3 operator chain with every side choice; each printed, parsed by the independent precedence parser, rebuilt and evaluated by the library next to the original on 49 real rows; {} queries (each built with one with() call and with one call per conjunct; all four kinds, joins to depth 2, sub-selects) compared structurally. distinct_nontrivial = trees whose text needed at least one parenthesis", lv.iter().map(|l| l.show()).collect::<Vec<_>>(), qs.len()));
    for idx in [0, total / 3, total / 2, total - 1] {
        let e = tree_at(&d1, idx);
        let text = catch(|| e.to_msi().to_string()).unwrap_or_default();
        rep.sample(json!({"tree": e.show(), "text": text}));
    }
    rep.sample(json!({"query": format!("{:?}", qs[qs.len() / 2])}));
    rep.finish()
}

pub fn replay(doc: &serde_json::Value) {
    if doc["kind"] == "c19-expr" {
        let e: E = serde_json::from_value(doc["expr"].clone()).expect("expr");
        let rows = make_rows();
        println!("tree: {}", e.show());
        match catch(|| e.to_msi().to_string()) {
            Ok(t) => {
                println!("text: {}", t);
                println!("reads as: {:?}", parse_expr(&t).map(|p| p.show()));
            }
            Err(p) => println!("panicked: {}", p),
        }
        let r = check_expr(&e, &rows);
        println!("verdict: {:?}", r.violation);
    } else {
        let q: Q = serde_json::from_value(doc["query"].clone()).expect("query");
        println!("query: {:?}", q);
        println!("verdict: {:?}", check_query(&q, false));
        println!("verdict (one with() call per conjunct): {:?}", check_query(&q, true));
    }
}

//! C20 — capacity limits are enforced as errors, and symmetrically.
//! E2 boundaries: for each limit L the quantities L-1, L, L+1 reached in one
//! batch, incrementally, across a reopen and after deletions freed capacity.
//! Oracle (knows no limit values): a call returns Ok or Err and never panics;
//! after Err nothing changed; after Ok the package still reads, saves, reopens
//! and equals the model.  Quantities documented to be within the limits must
//! be accepted.

use crate::dec;
use crate::enc;
use crate::ops::{Harness, Op, Outcome};
use crate::report::{Report, Tier};
use crate::snapshot::snapshot;
use crate::spec::{ColSpec, Ty};
use crate::val::{Bin, Val, E};
use rayon::prelude::*;
use serde_json::json;

type V = (String, String);

struct Ctx {
    name: String,
    h: Harness,
    /// model of the one table under test: rows sorted by key
    table: String,
    rows: Vec<Vec<Val>>,
    out: Vec<V>,
    steps: u64,
    dead: bool,
}

impl Ctx {
    fn new(name: &str, table: &str) -> Ctx {
        Ctx { name: name.to_string(), h: Harness::create(0).expect("create"), table: table.to_string(), rows: vec![], out: vec![], steps: 0, dead: false }
    }

    fn fail(&mut self, class: &str, detail: String) {
        self.out.push((format!("{}:{}", self.name.split('/').next().unwrap_or(""), class), format!("[{}] {}", self.name, detail)));
    }

    /// Applies an op that the model would apply as `effect`; `must_accept`
    /// = the quantity is documented to be within the limits.
    fn step(&mut self, op: &Op, must_accept: bool, effect: impl FnOnce(&mut Vec<Vec<Val>>)) -> bool {
        if self.dead {
            return false;
        }
        self.steps += 1;
        let before = self.observe();
        let o = self.h.apply(op);
        let desc = short(op);
        match o {
            Outcome::Panic(p) => {
                self.fail(&format!("panic:{}:{}", op.kind(), crate::report::panic_site(&p)), format!("{} panicked: {}", desc, p));
                self.dead = true;
                false
            }
            Outcome::Err(e) => {
                if must_accept {
                    self.fail(&format!("refused-within-limits:{}", op.kind()), format!("{} is within the limits but was refused: {}", desc, e));
                }
                if self.h.pkg.is_none() {
                    self.fail(&format!("package-lost:{}", op.kind()), format!("{} failed and the package is gone: {}", desc, e));
                    self.dead = true;
                    return false;
                }
                let after = self.observe();
                if before != after {
                    self.fail(&format!("error-but-changed:{}", op.kind()), format!("{} returned an error ({}) but the table changed: {} -> {}", desc, e, brief(&before), brief(&after)));
                    self.dead = true;
                }
                false
            }
            Outcome::Ok => {
                effect(&mut self.rows);
                self.rows.sort();
                let after = self.observe();
                let want = Ok((self.rows.len(), self.rows.first().cloned(), self.rows.last().cloned()));
                if after != want {
                    self.fail(&format!("accepted-but-unreadable:{}", op.kind()), format!("{} returned Ok but the table now reads as {} (expected {})", desc, brief(&after), brief(&want)));
                    self.dead = true;
                    return false;
                }
                true
            }
        }
    }

    fn observe(&mut self) -> Result<(usize, Option<Vec<Val>>, Option<Vec<Val>>), String> {
        let t = self.table.clone();
        match crate::report::catch(|| match self.h.p().select_rows(msi::Select::table(t)) {
            Err(e) => Err(format!("{}", e)),
            Ok(rows) => {
                let mut n = 0usize;
                let mut first = None;
                let mut last = None;
                for r in rows {
                    let v: Vec<Val> = (0..r.len()).map(|i| Val::from_msi(&r[i])).collect();
                    if n == 0 {
                        first = Some(v.clone());
                    }
                    last = Some(v);
                    n += 1;
                }
                Ok((n, first, last))
            }
        }) {
            Ok(r) => r,
            Err(p) => Err(format!("PANIC {}", p)),
        }
    }

    /// Saves, checks the file independently, reopens, compares every row.
    fn save_and_reopen(&mut self, check_accounting: bool) {
        if self.dead {
            return;
        }
        self.steps += 1;
        let h = std::mem::replace(&mut self.h, Harness { pkg: None, peek: crate::medium::Medium::empty().1 });
        let bytes = match h.close_into_inner() {
            Ok(b) => b,
            Err(e) => {
                self.fail("save-fails", e);
                self.dead = true;
                return;
            }
        };
        match dec::decode(&bytes) {
            Err(e) => self.fail("saved-undecodable", e),
            Ok(d) => {
                if let Some(p) = d.problems.iter().find(|p| !p.starts_with("summary")) {
                    let p = p.clone();
                    self.fail("saved-malformed", p);
                }
                if check_accounting {
                    if let Some(p) = dec::accounting_problems(&d).first() {
                        let p = p.clone();
                        self.fail("saved-accounting", p);
                    }
                }
            }
        }
        match Harness::open(bytes) {
            Err(e) => {
                self.fail("saved-file-refused-by-the-library", format!("the file saved after the accepted calls does not reopen: {}", e));
                self.dead = true;
            }
            Ok(h2) => {
                self.h = h2;
                let t = self.table.clone();
                let got: Result<Vec<Vec<Val>>, String> = match crate::report::catch(|| self.h.p().select_rows(msi::Select::table(t)).map(|rows| rows.map(|r| (0..r.len()).map(|i| Val::from_msi(&r[i])).collect::<Vec<Val>>()).collect::<Vec<_>>()).map_err(|e| e.to_string())) {
                    Ok(r) => r,
                    Err(p) => Err(format!("PANIC {}", p)),
                };
                match got {
                    Err(e) => {
                        self.fail("reopened-table-unreadable", format!("after reopen the table cannot be selected: {}", e));
                        self.dead = true;
                    }
                    Ok(rows) => {
                        let want: Vec<Vec<Val>> = self.rows.iter().map(|r| r.iter().map(|v| v.norm_empty()).collect()).collect();
                        if rows != want {
                            let i = rows.iter().zip(want.iter()).position(|(a, b)| a != b).unwrap_or(rows.len().min(want.len()));
                            self.fail("reopened-rows-differ", format!("after reopen: {} rows vs {} expected; first difference at index {}", rows.len(), want.len(), i));
                            self.dead = true;
                        }
                    }
                }
            }
        }
    }
}

fn short(op: &Op) -> String {
    match op {
        Op::Insert { table, rows } => format!("insert of {} row(s) into {}", rows.len(), table),
        o => {
            let s = o.show();
            if s.len() > 160 {
                format!("{}...", s.chars().take(160).collect::<String>())
            } else {
                s
            }
        }
    }
}

fn brief(r: &Result<(usize, Option<Vec<Val>>, Option<Vec<Val>>), String>) -> String {
    match r {
        Err(e) => format!("ERROR({})", e),
        Ok((n, f, l)) => format!("{} rows [{:?} .. {:?}]", n, f.as_ref().map(|r| r[0].show()), l.as_ref().map(|r| r[0].show())),
    }
}

fn ins(table: &str, rows: Vec<Vec<Val>>) -> Op {
    Op::Insert { table: table.into(), rows }
}

const ROW_LIMIT: i32 = 65536;

fn int_rows(from: i32, to: i32) -> Vec<Vec<Val>> {
    (from..=to).map(|i| vec![Val::Int(i), if i % 3 == 0 { Val::Null } else { Val::Int((i % 1000) as i32) }]).collect()
}

fn row_table() -> Op {
    Op::CreateTable { name: "R".into(), cols: vec![ColSpec::new("K", Ty::I32).key(), ColSpec::new("V", Ty::I16).nullable()] }
}

fn scenario_rows(which: usize) -> (u64, Vec<V>) {
    let l = ROW_LIMIT;
    let names = ["rows/one-batch-L-1", "rows/one-batch-L", "rows/one-batch-L+1", "rows/two-calls", "rows/across-reopen", "rows/after-deletions", "rows/string-key"];
    let mut c = Ctx::new(names[which], "R");
    let add = |rows: Vec<Vec<Val>>| move |m: &mut Vec<Vec<Val>>| m.extend(rows);
    if which == 6 {
        // string keys: the rows limit with a string primary key needs as many
        // distinct strings, which the pool limit forbids first; go to 40000
        // rows (within both) in two batches across a reopen
        assert!(c.h.apply(&Op::CreateTable { name: "R".into(), cols: vec![ColSpec::new("K", Ty::Str(8)).key(), ColSpec::new("V", Ty::I16).nullable()] }).is_ok());
        let mk = |a: i32, b: i32| -> Vec<Vec<Val>> { (a..b).map(|i| vec![Val::Str(format!("k{:05}", i)), Val::Int(1)]).collect() };
        let r1 = mk(0, 20000);
        c.step(&ins("R", r1.clone()), true, add(r1));
        c.save_and_reopen(true);
        let r2 = mk(20000, 40000);
        c.step(&ins("R", r2.clone()), true, add(r2));
        c.save_and_reopen(true);
        return (c.steps, c.out);
    }
    assert!(c.h.apply(&row_table()).is_ok());
    match which {
        0 | 1 | 2 => {
            let n = l - 1 + which as i32;
            let r = int_rows(1, n);
            c.step(&ins("R", r.clone()), n <= l, add(r));
            c.save_and_reopen(false);
        }
        3 => {
            let r = int_rows(1, l - 1);
            c.step(&ins("R", r.clone()), true, add(r));
            let r = int_rows(l, l);
            c.step(&ins("R", r.clone()), true, add(r));
            let r = int_rows(l + 1, l + 1);
            c.step(&ins("R", r.clone()), false, add(r));
            c.save_and_reopen(false);
            let r = int_rows(l + 2, l + 2);
            c.step(&ins("R", r.clone()), false, add(r));
            c.save_and_reopen(false);
        }
        4 => {
            let r = int_rows(1, l);
            c.step(&ins("R", r.clone()), true, add(r));
            c.save_and_reopen(false);
            let r = int_rows(l + 1, l + 1);
            c.step(&ins("R", r.clone()), false, add(r));
            c.save_and_reopen(false);
            // a batch that would overshoot by many
            let r = int_rows(l + 2, l + 50);
            c.step(&ins("R", r.clone()), false, add(r));
            c.save_and_reopen(false);
        }
        _ => {
            let r = int_rows(1, l);
            c.step(&ins("R", r.clone()), true, add(r));
            let del = Op::Delete { table: "R".into(), cond: Some(E::bin(Bin::Le, E::col("K"), E::int(10))) };
            c.step(&del, true, |m| m.retain(|r| !matches!(r[0], Val::Int(k) if k <= 10)));
            let r = int_rows(l + 1, l + 10);
            c.step(&ins("R", r.clone()), true, add(r));
            let r = int_rows(l + 11, l + 11);
            c.step(&ins("R", r.clone()), false, add(r));
            c.save_and_reopen(false);
        }
    }
    (c.steps, c.out)
}

/// Distinct strings with 2-byte references: a database pre-loaded by the
/// independent encoder to just below the limit, finished through the API.
fn scenario_strings(which: usize) -> (u64, Vec<V>) {
    let names = ["strings/reach-L-then-L+1", "strings/replace-at-L", "strings/free-then-reuse", "strings/batch-overshoot", "strings/full-free-one-then-existing-and-new"];
    let text: Vec<String> = vec!["a".into(), "b".into(), "c".into(), "d".into()];
    let mk_db = |n: usize| -> enc::EncDb {
        let rows: Vec<Vec<Val>> = (0..n).map(|i| vec![Val::Int(i as i32 + 1), Val::Str(format!("s{:05}", i))]).collect();
        enc::EncDb {
            ptype: 0,
            codepage_id: 65001,
            long_refs: false,
            pool_style: enc::PoolStyle::Dense,
            with_validation: true,
            row_order: enc::RowOrder::Ascending,
            tables: vec![enc::EncTable {
                name: "S".into(),
                cols: vec![enc::EncCol { spec: ColSpec::new("K", Ty::I32).key(), width1_quirk: false }, enc::EncCol { spec: ColSpec::new("V", Ty::Str(0)).nullable(), width1_quirk: false }],
                rows,
            }],
            streams: vec![],
            summary: enc::default_summary(),
            extra_pool_strings: vec![],
            ghost_strings: vec![],
        }
    };
    let _ = text;
    // pool entries of the database with zero rows
    let p0 = dec::decode(&enc::encode(&mk_db(0))).expect("decode").pool.len();
    let limit = 65535usize;
    let preload = limit - 2 - p0;
    let bytes = enc::encode(&mk_db(preload));
    let check = dec::decode(&bytes).expect("decode preload");
    assert_eq!(check.pool.len(), limit - 2, "preload arithmetic");
    let mut c = Ctx::new(names[which], "S");
    c.h = match Harness::open(bytes) {
        Ok(h) => h,
        Err(e) => return (0, vec![("strings:preloaded-database-refused".into(), e)]),
    };
    c.rows = (0..preload).map(|i| vec![Val::Int(i as i32 + 1), Val::Str(format!("s{:05}", i))]).collect();
    let base = preload as i32;
    let row = |k: i32, s: &str| vec![vec![Val::Int(base + k), Val::s(s)]];
    let add = |rows: Vec<Vec<Val>>| move |m: &mut Vec<Vec<Val>>| m.extend(rows);
    match which {
        0 => {
            c.step(&ins("S", row(1, "new-1")), true, add(row(1, "new-1"))); // L-1 entries
            c.step(&ins("S", row(2, "new-2")), true, add(row(2, "new-2"))); // L entries
            c.step(&ins("S", row(3, "new-3")), false, add(row(3, "new-3"))); // L+1
            c.save_and_reopen(true);
            // an existing string still fits
            c.step(&ins("S", row(4, "new-1")), true, add(row(4, "new-1")));
            c.save_and_reopen(true);
        }
        1 => {
            c.step(&ins("S", vec![row(1, "new-1")[0].clone(), row(2, "new-2")[0].clone()]), true, add(vec![row(1, "new-1")[0].clone(), row(2, "new-2")[0].clone()]));
            // at L: replacing a unique string by another unique string frees and reuses a slot
            let upd = Op::Update { table: "S".into(), sets: vec![("V".into(), Val::s("replaced"))], cond: Some(E::bin(Bin::Eq, E::col("K"), E::int(1))) };
            c.step(&upd, true, |m| {
                for r in m.iter_mut() {
                    if r[0] == Val::Int(1) {
                        r[1] = Val::s("replaced");
                    }
                }
            });
            c.save_and_reopen(true);
        }
        2 => {
            c.step(&ins("S", vec![row(1, "new-1")[0].clone(), row(2, "new-2")[0].clone()]), true, add(vec![row(1, "new-1")[0].clone(), row(2, "new-2")[0].clone()]));
            let del = Op::Delete { table: "S".into(), cond: Some(E::bin(Bin::Le, E::col("K"), E::int(3))) };
            c.step(&del, true, |m| m.retain(|r| !matches!(r[0], Val::Int(k) if k <= 3)));
            c.save_and_reopen(true);
            let three = vec![row(5, "x1")[0].clone(), row(6, "x2")[0].clone(), row(7, "x3")[0].clone()];
            c.step(&ins("S", three.clone()), true, add(three));
            c.step(&ins("S", row(8, "x4")), false, add(row(8, "x4")));
            c.save_and_reopen(true);
        }
        4 => {
            // pool full; one early entry freed; a batch that mentions a string
            // stored *after* the freed entry and then one new string: the
            // database then holds exactly L distinct strings, within the limit
            c.step(&ins("S", vec![row(1, "new-1")[0].clone(), row(2, "new-2")[0].clone()]), true, add(vec![row(1, "new-1")[0].clone(), row(2, "new-2")[0].clone()]));
            let del = Op::Delete { table: "S".into(), cond: Some(E::bin(Bin::Eq, E::col("K"), E::int(1))) };
            c.step(&del, true, |m| m.retain(|r| r[0] != Val::Int(1)));
            let two = vec![row(3, "s00005")[0].clone(), row(4, "brand-new")[0].clone()];
            c.step(&ins("S", two.clone()), true, add(two));
            c.save_and_reopen(true);
        }
        _ => {
            // one batch whose last rows overshoot: must be refused as a whole
            let five: Vec<Vec<Val>> = (1..=5).map(|k| row(k, &format!("batch-{}", k))[0].clone()).collect();
            c.step(&ins("S", five.clone()), false, add(five));
            c.save_and_reopen(true);
        }
    }
    (c.steps, c.out)
}

/// create_table when the pool has room for only `free` more strings: the
/// call needs new strings for three catalog tables one after the other, so the
/// limit can be hit after the first of them has been written.
fn scenario_create_table_near_string_limit(free: usize) -> (u64, Vec<V>) {
    let name = format!("strings/create-table-with-{}-free-entries", free);
    let mk_db = |n: usize| -> enc::EncDb {
        let rows: Vec<Vec<Val>> = (0..n).map(|i| vec![Val::Int(i as i32 + 1), Val::Str(format!("s{:05}", i))]).collect();
        enc::EncDb {
            ptype: 0,
            codepage_id: 65001,
            long_refs: false,
            pool_style: enc::PoolStyle::Dense,
            with_validation: true,
            row_order: enc::RowOrder::Ascending,
            tables: vec![enc::EncTable {
                name: "S".into(),
                cols: vec![enc::EncCol { spec: ColSpec::new("K", Ty::I32).key(), width1_quirk: false }, enc::EncCol { spec: ColSpec::new("V", Ty::Str(0)).nullable(), width1_quirk: false }],
                rows,
            }],
            streams: vec![],
            summary: enc::default_summary(),
            extra_pool_strings: vec![],
            ghost_strings: vec![],
        }
    };
    let p0 = dec::decode(&enc::encode(&mk_db(0))).expect("decode").pool.len();
    let preload = 65535usize - free - p0;
    let bytes = enc::encode(&mk_db(preload));
    let mut out: Vec<V> = Vec::new();
    let mut h = match Harness::open(bytes) {
        Ok(h) => h,
        Err(e) => return (0, vec![("strings:preloaded-database-refused".into(), e)]),
    };
    let fail = |out: &mut Vec<V>, class: &str, detail: String| out.push((format!("strings:{}", class), format!("[{}] {}", name, detail)));
    // the catalog as the API shows it (the 65 k rows of S are summarised)
    let observe = |h: &mut Harness| -> Result<(Vec<String>, Vec<Vec<Val>>, Vec<Vec<Val>>, Vec<Vec<Val>>, usize), String> {
        crate::report::catch(|| {
            let p = h.p();
            let tables: Vec<String> = p.tables().map(|t| t.name().to_string()).collect();
            let mut get = |t: &str| -> Vec<Vec<Val>> { p.select_rows(msi::Select::table(t)).map(|rows| rows.map(|r| (0..r.len()).map(|i| Val::from_msi(&r[i])).collect()).collect()).unwrap_or_default() };
            let a = get("_Tables");
            let b = get("_Columns");
            let c = get("_Validation");
            let n = p.select_rows(msi::Select::table("S")).map(|r| r.count()).unwrap_or(usize::MAX);
            (tables, a, b, c, n)
        })
    };
    let create = Op::CreateTable {
        name: "Nw".into(),
        cols: vec![ColSpec::new("K", Ty::I16).key(), ColSpec::new("Ee", Ty::Str(8)).nullable().category("Cabinet").enums(&["pp", "qq"]), ColSpec::new("Ff", Ty::Str(8)).nullable().category("Shortcut")],
    };
    let before = observe(&mut h);
    let mut steps = 1u64;
    match h.apply(&create) {
        Outcome::Panic(p) => fail(&mut out, &format!("panic:create_table:{}", crate::report::panic_site(&p)), format!("create_table panicked: {}", p)),
        Outcome::Err(e) => {
            if h.pkg.is_none() {
                fail(&mut out, "package-lost:create_table", e);
                return (steps, out);
            }
            let after = observe(&mut h);
            if before != after {
                let (b, a) = (before.as_ref().map(|x| x.0.clone()), after.as_ref().map(|x| x.0.clone()));
                fail(&mut out, "error-but-changed:create_table", format!("create_table returned an error ({}) but the catalog changed: tables {:?} -> {:?}; _Columns rows {:?} -> {:?}", e, b, a, before.as_ref().map(|x| x.2.len()), after.as_ref().map(|x| x.2.len())));
                return (steps, out);
            }
        }
        Outcome::Ok => {
            let after = observe(&mut h);
            if !after.as_ref().map(|x| x.0.contains(&"Nw".to_string())).unwrap_or(false) {
                fail(&mut out, "accepted-but-missing:create_table", "create_table returned Ok but the table is not listed".into());
            }
        }
    }
    // whatever happened, the package must save and reopen to what it shows now
    steps += 1;
    let now = observe(&mut h);
    match h.close_into_inner().and_then(Harness::open) {
        Err(e) => fail(&mut out, "saved-file-refused-by-the-library", format!("after create_table at the string limit the saved file does not reopen: {}", e)),
        Ok(mut h2) => {
            let re = observe(&mut h2);
            if re != now {
                fail(&mut out, "reopened-catalog-differs", format!("after create_table at the string limit and a reopen the catalog differs: tables {:?} -> {:?}", now.as_ref().map(|x| x.0.clone()), re.as_ref().map(|x| x.0.clone())));
            }
        }
    }
    (steps, out)
}

/// create_table when _Validation is `free` rows below the row limit: the call
/// adds one row per column there, after it has written _Columns and _Tables.
fn scenario_create_table_near_row_limit(free: usize) -> (u64, Vec<V>) {
    let name = format!("rows/create-table-with-{}-free-validation-rows", free);
    let mut out: Vec<V> = Vec::new();
    let fail = |out: &mut Vec<V>, class: &str, detail: String| out.push((format!("rows:{}", class), format!("[{}] {}", name, detail)));
    let mut h = Harness::create(0).expect("create");
    let have = match crate::report::catch(|| h.p().select_rows(msi::Select::table("_Validation")).map(|r| r.count()).unwrap_or(0)) {
        Ok(n) => n,
        Err(p) => return (0, vec![("rows:panic".into(), p)]),
    };
    let fill = 65536usize - free - have;
    let rows: Vec<Vec<Val>> = (0..fill).map(|i| {
        let mut r = vec![Val::s(&format!("G{}", i / 30)), Val::s(&format!("C{}", i % 30)), Val::s("N")];
        r.extend(std::iter::repeat(Val::Null).take(7));
        r
    }).collect();
    if !h.apply(&ins("_Validation", rows)).is_ok() {
        return (1, out); // direct catalog edits refused: nothing to check
    }
    let observe = |h: &mut Harness| -> Result<(Vec<String>, usize, usize, usize), String> {
        crate::report::catch(|| {
            let p = h.p();
            let tables: Vec<String> = p.tables().map(|t| t.name().to_string()).collect();
            let mut n = |t: &str| p.select_rows(msi::Select::table(t)).map(|r| r.count()).unwrap_or(usize::MAX);
            (tables, n("_Tables"), n("_Columns"), n("_Validation"))
        })
    };
    let before = observe(&mut h);
    let create = Op::CreateTable { name: "Nw".into(), cols: vec![ColSpec::new("K", Ty::I16).key(), ColSpec::new("Aa", Ty::I16).nullable(), ColSpec::new("Bb", Ty::I16).nullable()] };
    match h.apply(&create) {
        Outcome::Panic(p) => fail(&mut out, &format!("panic:create_table:{}", crate::report::panic_site(&p)), format!("create_table panicked: {}", p)),
        Outcome::Err(e) => {
            if h.pkg.is_none() {
                fail(&mut out, "package-lost:create_table", e);
                return (2, out);
            }
            let after = observe(&mut h);
            if before != after {
                fail(&mut out, "error-but-changed:create_table", format!("create_table returned an error ({}) but the catalog changed: {:?} -> {:?}", e, before, after));
                return (2, out);
            }
        }
        Outcome::Ok => {
            if free < 3 {
                // accepted although _Validation cannot take three more rows: then it must still reopen
            }
        }
    }
    let now = observe(&mut h);
    match h.close_into_inner().and_then(Harness::open) {
        Err(e) => fail(&mut out, "saved-file-refused-by-the-library", format!("after create_table at the row limit of _Validation the saved file does not reopen: {}", e)),
        Ok(mut h2) => {
            let re = observe(&mut h2);
            if re != now {
                fail(&mut out, "reopened-catalog-differs", format!("{:?} -> {:?}", now, re));
            }
        }
    }
    (3, out)
}

/// Two limits at once: the pool is full (65535 entries) and one string has
/// 65534 references; further references to it need a second entry.
fn scenario_strings_and_refs(which: usize) -> (u64, Vec<V>) {
    let names = ["strings+refs/batch-crossing-the-reference-limit", "strings+refs/one-by-one"];
    let col = |n: &str, ty: Ty, key: bool| enc::EncCol { spec: if key { ColSpec::new(n, ty).key() } else { ColSpec::new(n, ty).nullable() }, width1_quirk: false };
    let mk_db = |filler: usize| -> enc::EncDb {
        enc::EncDb {
            ptype: 0,
            codepage_id: 65001,
            long_refs: false,
            pool_style: enc::PoolStyle::Dense,
            with_validation: true,
            row_order: enc::RowOrder::Ascending,
            tables: vec![
                enc::EncTable { name: "F".into(), cols: vec![col("K", Ty::I32, true), col("V", Ty::Str(0), false)], rows: (0..filler).map(|i| vec![Val::Int(i as i32 + 1), Val::Str(format!("f{:05}", i))]).collect() },
                enc::EncTable { name: "X".into(), cols: vec![col("K", Ty::I32, true), col("A", Ty::Str(0), false), col("B", Ty::Str(0), false)], rows: (1..=32767).map(|i| vec![Val::Int(i), Val::s("same"), Val::s("same")]).collect() },
            ],
            streams: vec![],
            summary: enc::default_summary(),
            extra_pool_strings: vec![],
            ghost_strings: vec![],
        }
    };
    let p0 = dec::decode(&enc::encode(&mk_db(0))).expect("decode").pool.len();
    let filler = 65535 - p0;
    let bytes = enc::encode(&mk_db(filler));
    let d = dec::decode(&bytes).expect("decode preload");
    assert_eq!(d.pool.len(), 65535, "preload arithmetic");
    let mut c = Ctx::new(names[which], "X");
    c.h = match Harness::open(bytes) {
        Ok(h) => h,
        Err(e) => return (0, vec![("strings+refs:preloaded-database-refused".into(), e)]),
    };
    c.rows = (1..=32767).map(|i| vec![Val::Int(i), Val::s("same"), Val::s("same")]).collect();
    let add = |rows: Vec<Vec<Val>>| move |m: &mut Vec<Vec<Val>>| m.extend(rows);
    match which {
        0 => {
            // one row with two cells: the second reference needs a new entry
            let r = vec![vec![Val::Int(40000), Val::s("same"), Val::s("same")]];
            c.step(&ins("X", r.clone()), false, add(r));
            c.save_and_reopen(true);
        }
        _ => {
            let r = vec![vec![Val::Int(40000), Val::s("same"), Val::Null]];
            c.step(&ins("X", r.clone()), true, add(r)); // 65535th reference
            let r = vec![vec![Val::Int(40001), Val::s("same"), Val::Null]];
            c.step(&ins("X", r.clone()), false, add(r)); // needs a second entry: pool is full
            c.save_and_reopen(true);
            // releasing references makes room again
            let del = Op::Delete { table: "X".into(), cond: Some(E::bin(Bin::Le, E::col("K"), E::int(2))) };
            c.step(&del, true, |m| m.retain(|r| !matches!(r[0], Val::Int(k) if k <= 2)));
            let r = vec![vec![Val::Int(40002), Val::s("same"), Val::s("same")]];
            c.step(&ins("X", r.clone()), true, add(r));
            c.save_and_reopen(true);
        }
    }
    (c.steps, c.out)
}

/// References to one string: 65534, 65535, 65536 cells holding the same text.
fn scenario_refs(which: usize) -> (u64, Vec<V>) {
    let names = ["refs/L-1", "refs/L", "refs/L+1", "refs/incremental-and-release"];
    let mut c = Ctx::new(names[which], "X");
    assert!(c.h.apply(&Op::CreateTable { name: "X".into(), cols: vec![ColSpec::new("K", Ty::I32).key(), ColSpec::new("A", Ty::Str(0)).nullable(), ColSpec::new("B", Ty::Str(0)).nullable()] }).is_ok());
    let full = |a: i32, b: i32| -> Vec<Vec<Val>> { (a..=b).map(|i| vec![Val::Int(i), Val::s("same"), Val::s("same")]).collect() };
    let add = |rows: Vec<Vec<Val>>| move |m: &mut Vec<Vec<Val>>| m.extend(rows);
    match which {
        0 => {
            let r = full(1, 32767);
            c.step(&ins("X", r.clone()), true, add(r));
        }
        1 => {
            let mut r = full(1, 32767);
            r.push(vec![Val::Int(32768), Val::s("same"), Val::Null]);
            c.step(&ins("X", r.clone()), true, add(r));
        }
        2 => {
            let r = full(1, 32768);
            c.step(&ins("X", r.clone()), true, add(r));
        }
        _ => {
            let r = full(1, 32767);
            c.step(&ins("X", r.clone()), true, add(r));
            c.save_and_reopen(true);
            let r = full(32768, 32770);
            c.step(&ins("X", r.clone()), true, add(r));
            c.save_and_reopen(true);
            let del = Op::Delete { table: "X".into(), cond: Some(E::bin(Bin::Gt, E::col("K"), E::int(5))) };
            c.step(&del, true, |m| m.retain(|r| matches!(r[0], Val::Int(k) if k <= 5)));
            let r = full(40000, 40002);
            c.step(&ins("X", r.clone()), true, add(r));
        }
    }
    c.save_and_reopen(true);
    (c.steps, c.out)
}

fn scenario_columns(n: usize) -> (u64, Vec<V>) {
    let mut c = Ctx::new(&format!("columns/{}", n), "C");
    let cols: Vec<ColSpec> = (0..n).map(|i| if i == 0 { ColSpec::new("K", Ty::I16).key() } else { ColSpec::new(&format!("C{}", i), Ty::I16).nullable() }).collect();
    let mut created = false;
    {
        let op = Op::CreateTable { name: "C".into(), cols };
        // the table does not exist yet: observe() fails before and, if the
        // call is refused, after — which is "unchanged"
        created = c.step_create(&op, n <= 32) || created;
    }
    if created {
        let row: Vec<Val> = (0..n).map(|i| Val::Int(i as i32 + 1)).collect();
        c.step(&ins("C", vec![row.clone()]), true, move |m| m.push(row));
        c.save_and_reopen(true);
    }
    (c.steps, c.out)
}

impl Ctx {
    /// create_table variant of `step`: "unchanged" = the table list.
    fn step_create(&mut self, op: &Op, must_accept: bool) -> bool {
        self.steps += 1;
        let before = snapshot(self.h.p()).ok();
        let o = self.h.apply(op);
        match o {
            Outcome::Panic(p) => {
                self.fail(&format!("panic:create_table:{}", crate::report::panic_site(&p)), format!("{} panicked: {}", short(op), p));
                self.dead = true;
                false
            }
            Outcome::Err(e) => {
                if must_accept {
                    self.fail("refused-within-limits:create_table", format!("{} is within the limits but was refused: {}", short(op), e));
                }
                let after = snapshot(self.h.p()).ok();
                if before != after {
                    self.fail("error-but-changed:create_table", format!("{} returned an error ({}) but the package changed", short(op), e));
                }
                false
            }
            Outcome::Ok => true,
        }
    }
}

/// Table names of `len` characters on a database that has no `_Validation`
/// table (there the container's 31-unit name limit is the only one).
fn scenario_long_table_name_without_validation(len: usize) -> (u64, Vec<V>) {
    let name: String = format!("T{}", "a".repeat(len - 1));
    let mut c = Ctx::new(&format!("table-name-without-validation/{}", len), &name);
    c.h = match Harness::open(crate::c09::seed_bytes("enc3")) {
        Ok(h) => h,
        Err(e) => return (0, vec![("table-name-without-validation:seed-refused".into(), e)]),
    };
    let op = Op::CreateTable { name: name.clone(), cols: vec![ColSpec::new("K", Ty::I16).key(), ColSpec::new("S", Ty::Str(0)).nullable()] };
    if c.step_create(&op, len <= 31) {
        c.step(&ins(&name, vec![vec![Val::Int(1), Val::s("x")]]), true, |m| m.push(vec![Val::Int(1), Val::s("x")]));
        c.save_and_reopen(false);
    }
    (c.steps, c.out)
}

fn scenario_names(kind: usize, len: usize) -> (u64, Vec<V>) {
    match kind {
        0 => {
            // table name of `len` characters
            let name: String = format!("T{}", "a".repeat(len - 1));
            let mut c = Ctx::new(&format!("table-name/{}", len), &name);
            let op = Op::CreateTable { name: name.clone(), cols: vec![ColSpec::new("K", Ty::I16).key()] };
            if c.step_create(&op, len <= 31) {
                c.step(&ins(&name, vec![vec![Val::Int(1)]]), true, |m| m.push(vec![Val::Int(1)]));
                c.save_and_reopen(true);
            }
            (c.steps, c.out)
        }
        1 => {
            let cname: String = format!("c{}", "b".repeat(len - 1));
            let mut c = Ctx::new(&format!("column-name/{}", len), "N");
            let op = Op::CreateTable { name: "N".into(), cols: vec![ColSpec::new("K", Ty::I16).key(), ColSpec::new(&cname, Ty::I16).nullable()] };
            if c.step_create(&op, len <= 31) {
                c.step(&ins("N", vec![vec![Val::Int(1), Val::Int(2)]]), true, |m| m.push(vec![Val::Int(1), Val::Int(2)]));
                c.save_and_reopen(true);
            }
            (c.steps, c.out)
        }
        _ => {
            // stream names: packable (2 characters per unit) and unpackable
            let mut out = Vec::new();
            let mut steps = 0;
            // characters outside the Basic Multilingual Plane take two of the
            // container's 16-bit units each
            let astral: String = "\u{1F600}".repeat((len + 1) / 2);
            let mixed: String = format!("{}{}", "\u{1F600}".repeat(len / 4), "-".repeat(len - 2 * (len / 4)));
            for (cls, name, within) in [("packable", "s".repeat(len), len <= 62), ("unpackable", "-".repeat(len), len <= 31), ("astral", astral, 2 * ((len + 1) / 2) <= 31), ("astral-and-ascii", mixed, len <= 31), ("three-byte-characters", "\u{4e2d}".repeat(len), len <= 31), ("three-byte-characters-and-ascii", format!("{}.dat", "\u{6587}".repeat(len.saturating_sub(4).max(1))), len.saturating_sub(4).max(1) + 2 <= 31)] {
                steps += 1;
                let mut h = Harness::create(0).expect("create");
                let before = snapshot(h.p()).ok();
                let o = h.apply(&Op::WriteStream { name: name.clone(), len: 5, seed: 1 });
                match o {
                    Outcome::Panic(p) => out.push((format!("stream-name:panic:{}", crate::report::panic_site(&p)), format!("write_stream with a {} name of {} characters panicked: {}", cls, len, p))),
                    Outcome::Err(e) => {
                        if within {
                            out.push(("stream-name:refused-within-limits".into(), format!("{} stream name of {} characters refused: {}", cls, len, e)));
                        }
                        if snapshot(h.p()).ok() != before {
                            out.push(("stream-name:error-but-changed".into(), format!("{} stream name of {} characters: error but the package changed", cls, len)));
                        }
                    }
                    Outcome::Ok => match h.close_into_inner().and_then(Harness::open) {
                        Err(e) => out.push(("stream-name:saved-file-refused-by-the-library".into(), format!("{} stream name of {} characters accepted but the file does not reopen: {}", cls, len, e))),
                        Ok(mut h2) => {
                            let s = snapshot(h2.p()).ok();
                            let ok = s.map(|s| s.streams.iter().any(|(n, c)| *n == name && c.as_ref().map(|b| b.len()) == Ok(5))).unwrap_or(false);
                            if !ok {
                                out.push(("stream-name:accepted-but-lost".into(), format!("{} stream name of {} characters accepted but not listed after reopen", cls, len)));
                            }
                        }
                    },
                }
            }
            (steps, out)
        }
    }
}

pub fn run(tier: Tier) -> i32 {
    let mut rep = Report::new("C20", tier, "model_checking");
    rep.assume("the oracle knows no limit values: Ok must stay readable / savable / reopenable and equal the model, Err must change nothing, nothing may panic; only quantities the documentation puts within the limits (<= 32 columns, <= 65536 rows, <= 65535 strings / references, names <= 31 characters) are required to be accepted");
    rep.assume("the string-count scenarios start from a database pre-loaded by the independent encoder (enc.rs) to two entries below the limit");
    let mut jobs: Vec<Box<dyn Fn() -> (u64, Vec<V>) + Send + Sync>> = Vec::new();
    for w in 0..7 {
        jobs.push(Box::new(move || scenario_rows(w)));
    }
    for w in 0..5 {
        jobs.push(Box::new(move || scenario_strings(w)));
    }
    for w in 0..4 {
        jobs.push(Box::new(move || scenario_refs(w)));
    }
    for w in 0..2 {
        jobs.push(Box::new(move || scenario_strings_and_refs(w)));
    }
    for free in 0..=8 {
        jobs.push(Box::new(move || scenario_create_table_near_string_limit(free)));
    }
    for free in 0..=4 {
        jobs.push(Box::new(move || scenario_create_table_near_row_limit(free)));
    }
    for n in [1usize, 31, 32, 33, 34, 64] {
        jobs.push(Box::new(move || scenario_columns(n)));
    }
    let lens: Vec<usize> = if tier.thorough() { (1..=70).collect() } else { vec![30, 31, 32, 33, 34, 59, 60, 61, 62, 63, 64, 65, 66] };
    for k in 0..3 {
        for l in &lens {
            let l = *l;
            jobs.push(Box::new(move || scenario_names(k, l)));
        }
    }
    for l in [31usize, 32, 33, 59, 60, 61, 62, 63, 64, 65] {
        jobs.push(Box::new(move || scenario_long_table_name_without_validation(l)));
    }
    let results: Vec<(u64, Vec<V>)> = jobs.par_iter().map(|j| j()).collect();
    let mut steps = 0u64;
    for (n, vs) in results {
        steps += n;
        for (sig, d) in vs {
            rep.violation(sig, d.clone(), json!({"kind":"c20","detail":d}));
        }
    }
    rep.set("states", jobs.len());
    rep.set("transitions", steps);
    rep.set("traces_validated_against_impl", steps);
    rep.set("evaluations", steps);
    rep.set("distinct_nontrivial", jobs.len());
    rep.set("scenarios", jobs.len());
    rep.set("exhaustive", true);
    rep.set("rule", "limits: rows per table (65535 / 65536 / 65537 in one batch, in two calls, across a reopen, after deletions; 40000 string keys), distinct strings with 2-byte references (pre-loaded to L-2 by the independent encoder, then L-1, L, L+1 through the API; replace at L; free then reuse; batch overshoot; create_table with 0..8 free entries left), create_table with 0..4 free rows left in _Validation, references to one string (65534 / 65535 / 65536 cells, incremental + release; exact accounting by the independent decoder), columns per table (1, 31..34, 64), table / column / stream name lengths around 31/32, 60/61, 62/63, 64/65. distinct_nontrivial = scenarios (each a distinct boundary)");
    rep.sample(json!({"scenario": "rows/two-calls", "calls": ["insert 65535 rows", "insert 1 row", "insert 1 row (65537th)", "save+reopen", "insert 1 row", "save+reopen"]}));
    rep.finish()
}

pub fn replay(doc: &serde_json::Value) {
    println!("{}", doc["detail"]);
    println!("(re-run `msimc C20 quick` to reproduce: scenarios are deterministic and take a few seconds)");
}

//! Independent decoder of the MSI database format, written from the format
//! description in DESIGN.md appendix A (not from the library's code).  The
//! container itself (MS-CFB) is read with the `cfb` crate.

use crate::c14::ref_decode;
use std::collections::BTreeMap;
use std::io::{Cursor, Read};

pub const TABLE_MARK: char = '\u{4840}';

fn b64_value(c: char) -> Option<u32> {
    match c {
        '0'..='9' => Some(c as u32 - '0' as u32),
        'A'..='Z' => Some(10 + c as u32 - 'A' as u32),
        'a'..='z' => Some(36 + c as u32 - 'a' as u32),
        '.' => Some(62),
        '_' => Some(63),
        _ => None,
    }
}

fn b64_char(v: u32) -> char {
    match v {
        0..=9 => char::from_u32('0' as u32 + v).unwrap(),
        10..=35 => char::from_u32('A' as u32 + v - 10).unwrap(),
        36..=61 => char::from_u32('a' as u32 + v - 36).unwrap(),
        62 => '.',
        _ => '_',
    }
}

/// Stream-name mangling: pairs of packable characters -> U+3800 + (v2<<6) + v1,
/// a single packable character -> U+4800 + v, anything else verbatim.
pub fn mangle(name: &str, table: bool) -> String {
    let cs: Vec<char> = name.chars().collect();
    let mut out = String::new();
    if table {
        out.push(TABLE_MARK);
    }
    let mut i = 0;
    while i < cs.len() {
        match b64_value(cs[i]) {
            Some(v1) => {
                if i + 1 < cs.len() {
                    if let Some(v2) = b64_value(cs[i + 1]) {
                        out.push(char::from_u32(0x3800 + (v2 << 6) + v1).unwrap());
                        i += 2;
                        continue;
                    }
                }
                out.push(char::from_u32(0x4800 + v1).unwrap());
                i += 1;
            }
            None => {
                out.push(cs[i]);
                i += 1;
            }
        }
    }
    out
}

pub fn unmangle(raw: &str) -> (String, bool) {
    let mut out = String::new();
    let mut table = false;
    for (i, c) in raw.chars().enumerate() {
        let u = c as u32;
        if i == 0 && c == TABLE_MARK {
            table = true;
        } else if (0x3800..0x4800).contains(&u) {
            let v = u - 0x3800;
            out.push(b64_char(v & 0x3f));
            out.push(b64_char(v >> 6));
        } else if (0x4800..0x4840).contains(&u) {
            out.push(b64_char(u - 0x4800));
        } else {
            out.push(c);
        }
    }
    (out, table)
}

#[derive(Clone, Debug, PartialEq, Eq)]
pub struct PoolEntry {
    pub len: u32,
    pub refcount: u16,
    pub bytes: Vec<u8>,
}

#[derive(Clone, Copy, Debug, PartialEq, Eq, PartialOrd, Ord, Hash)]
pub enum Cell {
    Null,
    Int(i32),
    Ref(u32),
}

#[derive(Clone, Debug)]
pub struct DecTable {
    pub name: String,
    /// (column name, 16-bit type word)
    pub cols: Vec<(String, i32)>,
    pub rows: Vec<Vec<Cell>>,
    pub stream_len: usize,
    pub row_width: usize,
    pub stream_present: bool,
}

#[derive(Clone, Debug, PartialEq, Eq)]
pub enum PropVal {
    Empty,
    Null,
    I1(i8),
    I2(i16),
    I4(i32),
    Str(Vec<u8>),
    FileTime(u64),
}

#[derive(Clone, Debug, Default)]
pub struct DecSummary {
    pub format_version: u16,
    pub section_offset: u32,
    pub section_size: u32,
    /// id -> (offset, value)
    pub props: BTreeMap<u32, (u32, PropVal)>,
    pub codepage: Option<u16>,
}

#[derive(Clone, Debug, Default)]
pub struct Decoded {
    pub clsid: String,
    /// raw container name -> bytes, streams of the root storage only
    pub entries: BTreeMap<String, Vec<u8>>,
    pub storages: Vec<String>,
    pub codepage_id: u32,
    pub long_refs: bool,
    pub pool: Vec<PoolEntry>,
    pub data_len: usize,
    pub tables: BTreeMap<String, DecTable>,
    /// decoded name -> content, everything that is neither a table stream nor
    /// one of the \u{5} streams
    pub user_streams: BTreeMap<String, Vec<u8>>,
    pub summary: Option<DecSummary>,
    /// violations of well-formedness found while decoding
    pub problems: Vec<String>,
}

pub fn container_entries(bytes: &[u8]) -> Result<(String, BTreeMap<String, Vec<u8>>, Vec<String>), String> {
    let mut comp = cfb::CompoundFile::open(Cursor::new(bytes.to_vec())).map_err(|e| format!("container: {}", e))?;
    let clsid = comp.root_entry().clsid().hyphenated().to_string().to_uppercase();
    let mut names = Vec::new();
    let mut storages = Vec::new();
    for e in comp.read_root_storage() {
        if e.is_stream() {
            names.push((e.name().to_string(), e.path().to_path_buf()));
        } else {
            storages.push(e.name().to_string());
        }
    }
    let mut out = BTreeMap::new();
    for (n, path) in names {
        let mut s = comp.open_stream(&path).map_err(|e| format!("open stream {:?}: {}", n, e))?;
        let mut buf = Vec::new();
        s.read_to_end(&mut buf).map_err(|e| format!("read stream {:?}: {}", n, e))?;
        if out.insert(n.clone(), buf).is_some() {
            return Err(format!("duplicate container entry {:?}", n));
        }
    }
    Ok((clsid, out, storages))
}

fn u16le(b: &[u8], o: usize) -> u16 {
    u16::from_le_bytes([b[o], b[o + 1]])
}
fn u32le(b: &[u8], o: usize) -> u32 {
    u32::from_le_bytes([b[o], b[o + 1], b[o + 2], b[o + 3]])
}

#[derive(Clone, Copy, PartialEq)]
enum K {
    S,
    I2,
    I4,
}

fn parse_table(stream: Option<&Vec<u8>>, kinds: &[K], long_refs: bool, name: &str, problems: &mut Vec<String>) -> (Vec<Vec<Cell>>, usize, usize) {
    let width: usize = kinds
        .iter()
        .map(|k| match k {
            K::S => {
                if long_refs {
                    3
                } else {
                    2
                }
            }
            K::I2 => 2,
            K::I4 => 4,
        })
        .sum();
    let data = match stream {
        Some(d) => d,
        None => return (Vec::new(), 0, width),
    };
    if width == 0 {
        return (Vec::new(), data.len(), 0);
    }
    if data.len() % width != 0 {
        problems.push(format!("table {:?}: stream length {} is not a multiple of the row width {}", name, data.len(), width));
    }
    let n = data.len() / width;
    let mut rows = vec![Vec::with_capacity(kinds.len()); n];
    let mut off = 0usize;
    for k in kinds {
        for row in rows.iter_mut() {
            let cell = match k {
                K::S => {
                    let mut v = u16le(data, off) as u32;
                    off += 2;
                    if long_refs {
                        v |= (data[off] as u32) << 16;
                        off += 1;
                    }
                    if v == 0 {
                        Cell::Null
                    } else {
                        Cell::Ref(v)
                    }
                }
                K::I2 => {
                    let v = u16le(data, off);
                    off += 2;
                    if v == 0 {
                        Cell::Null
                    } else {
                        Cell::Int((v ^ 0x8000) as i16 as i32)
                    }
                }
                K::I4 => {
                    let v = u32le(data, off);
                    off += 4;
                    if v == 0 {
                        Cell::Null
                    } else {
                        Cell::Int((v ^ 0x8000_0000) as i32)
                    }
                }
            };
            row.push(cell);
        }
    }
    (rows, data.len(), width)
}

impl Decoded {
    pub fn effective_codepage(&self) -> i32 {
        if self.codepage_id == 0 {
            65001
        } else {
            self.codepage_id as i32
        }
    }

    /// Text of pool entry `id` (1-based), None if out of range.
    pub fn text(&self, id: u32) -> Option<String> {
        if id == 0 || id as usize > self.pool.len() {
            return None;
        }
        Some(ref_decode(self.effective_codepage(), &self.pool[id as usize - 1].bytes))
    }

    pub fn cell_text(&self, c: &Cell) -> Option<String> {
        match c {
            Cell::Ref(id) => self.text(*id),
            _ => None,
        }
    }
}

pub fn decode(bytes: &[u8]) -> Result<Decoded, String> {
    let (clsid, entries, storages) = container_entries(bytes)?;
    let mut d = Decoded { clsid, entries, storages, ..Decoded::default() };
    let mut problems = Vec::new();

    // ---- string pool ------------------------------------------------------
    let pool_name = mangle("_StringPool", true);
    let data_name = mangle("_StringData", true);
    let pool_bytes = d.entries.get(&pool_name).ok_or("no _StringPool stream")?.clone();
    let data_bytes = d.entries.get(&data_name).ok_or("no _StringData stream")?.clone();
    if pool_bytes.len() < 4 {
        return Err("_StringPool shorter than its header".into());
    }
    let header = u32le(&pool_bytes, 0);
    d.codepage_id = header & 0xffff;
    d.long_refs = header & 0x8000_0000 != 0;
    if header & 0x7fff_0000 != 0 {
        problems.push(format!("_StringPool header has unknown bits set: {:#x}", header));
    }
    if (pool_bytes.len() - 4) % 4 != 0 {
        problems.push(format!("_StringPool length {} is not 4 + 4k", pool_bytes.len()));
    }
    let mut off = 4usize;
    let mut data_off = 0usize;
    while off + 4 <= pool_bytes.len() {
        let mut len = u16le(&pool_bytes, off) as u32;
        let mut rc = u16le(&pool_bytes, off + 2);
        off += 4;
        if len == 0 && rc != 0 {
            // escape: high word of a long string's length
            if off + 4 > pool_bytes.len() {
                problems.push("_StringPool: long-string escape without continuation".into());
                break;
            }
            len = ((rc as u32) << 16) | u16le(&pool_bytes, off) as u32;
            rc = u16le(&pool_bytes, off + 2);
            off += 4;
        }
        let end = data_off + len as usize;
        if end > data_bytes.len() {
            problems.push(format!("_StringPool entry {} (length {}) runs past the end of _StringData ({} bytes)", d.pool.len() + 1, len, data_bytes.len()));
            d.pool.push(PoolEntry { len, refcount: rc, bytes: Vec::new() });
            data_off = data_bytes.len();
            continue;
        }
        d.pool.push(PoolEntry { len, refcount: rc, bytes: data_bytes[data_off..end].to_vec() });
        data_off = end;
    }
    d.data_len = data_bytes.len();
    if data_off != data_bytes.len() {
        problems.push(format!("_StringData has {} bytes, the pool entries account for {}", data_bytes.len(), data_off));
    }

    // ---- catalog ------------------------------------------------------------
    let lr = d.long_refs;
    let t_tables = {
        let (rows, len, w) = parse_table(d.entries.get(&mangle("_Tables", true)), &[K::S], lr, "_Tables", &mut problems);
        DecTable { name: "_Tables".into(), cols: vec![("Name".into(), 0x2d40)], rows, stream_len: len, row_width: w, stream_present: d.entries.contains_key(&mangle("_Tables", true)) }
    };
    let t_columns = {
        let (rows, len, w) = parse_table(d.entries.get(&mangle("_Columns", true)), &[K::S, K::I2, K::S, K::I2], lr, "_Columns", &mut problems);
        DecTable {
            name: "_Columns".into(),
            cols: vec![("Table".into(), 0x2d40), ("Number".into(), 0x2502), ("Name".into(), 0x0d40), ("Type".into(), 0x0502)],
            rows,
            stream_len: len,
            row_width: w,
            stream_present: d.entries.contains_key(&mangle("_Columns", true)),
        }
    };
    // table names
    let mut table_names: Vec<String> = Vec::new();
    for r in &t_tables.rows {
        match d.cell_text(&r[0]) {
            Some(n) => table_names.push(n),
            None => problems.push(format!("_Tables row with unresolvable name cell {:?}", r[0])),
        }
    }
    // columns per table
    let mut cols_of: BTreeMap<String, BTreeMap<i32, (String, i32)>> = BTreeMap::new();
    for r in &t_columns.rows {
        let t = d.cell_text(&r[0]);
        let num = match r[1] {
            Cell::Int(n) => Some(n),
            _ => None,
        };
        let name = d.cell_text(&r[2]);
        let ty = match r[3] {
            Cell::Int(n) => Some(n),
            _ => None,
        };
        match (t, num, name, ty) {
            (Some(t), Some(num), Some(name), Some(ty)) => {
                if cols_of.entry(t.clone()).or_default().insert(num, (name, ty)).is_some() {
                    problems.push(format!("_Columns: duplicate (table {:?}, number {})", t, num));
                }
            }
            other => problems.push(format!("_Columns row with null/unresolvable cells: {:?}", other)),
        }
    }
    for t in cols_of.keys() {
        if !table_names.contains(t) {
            problems.push(format!("_Columns mentions table {:?} which is not in _Tables", t));
        }
    }
    d.tables.insert("_Tables".into(), t_tables);
    d.tables.insert("_Columns".into(), t_columns);
    let val_present = d.entries.contains_key(&mangle("_Validation", true));
    if val_present || table_names.iter().any(|n| n == "_Validation") {
        let kinds = [K::S, K::S, K::S, K::I4, K::I4, K::S, K::I2, K::S, K::S, K::S];
        let (rows, len, w) = parse_table(d.entries.get(&mangle("_Validation", true)), &kinds, lr, "_Validation", &mut problems);
        let names = ["Table", "Column", "Nullable", "MinValue", "MaxValue", "KeyTable", "KeyColumn", "Category", "Set", "Description"];
        d.tables.insert(
            "_Validation".into(),
            DecTable { name: "_Validation".into(), cols: names.iter().map(|n| (n.to_string(), 0)).collect(), rows, stream_len: len, row_width: w, stream_present: val_present },
        );
    }
    for t in &table_names {
        if t == "_Validation" {
            // also check its self-description is complete
        }
        let cols = match cols_of.get(t) {
            Some(c) => c,
            None => {
                problems.push(format!("table {:?} has no columns in _Columns", t));
                continue;
            }
        };
        let n = cols.len() as i32;
        let numbers: Vec<i32> = cols.keys().cloned().collect();
        if numbers != (1..=n).collect::<Vec<i32>>() {
            problems.push(format!("table {:?}: columns are numbered {:?}, not 1..{}", t, numbers, n));
        }
        if t == "_Validation" {
            continue; // parsed with the fixed schema above
        }
        let mut kinds = Vec::new();
        let mut cdefs = Vec::new();
        for (_, (name, ty)) in cols.iter() {
            let k = if ty & 0x800 != 0 {
                K::S
            } else {
                match ty & 0xff {
                    4 => K::I4,
                    2 | 1 => K::I2,
                    w => {
                        problems.push(format!("table {:?} column {:?}: integer width {} in type word {:#x}", t, name, w, ty));
                        K::I2
                    }
                }
            };
            kinds.push(k);
            cdefs.push((name.clone(), *ty));
        }
        let raw = mangle(t, true);
        let (rows, len, w) = parse_table(d.entries.get(&raw), &kinds, lr, t, &mut problems);
        d.tables.insert(t.clone(), DecTable { name: t.clone(), cols: cdefs, rows, stream_len: len, row_width: w, stream_present: d.entries.contains_key(&raw) });
    }

    // ---- other streams ----------------------------------------------------------
    for (raw, content) in d.entries.iter() {
        if ["\u{5}SummaryInformation", "\u{5}DocumentSummaryInformation", "\u{5}DigitalSignature", "\u{5}MsiDigitalSignatureEx"].contains(&raw.as_str()) {
            continue;
        }
        let (name, is_table) = unmangle(raw);
        if is_table {
            let known = name == "_StringPool" || name == "_StringData" || d.tables.contains_key(&name);
            if !known {
                problems.push(format!("table stream {:?} for a table that is not in _Tables", name));
            }
            continue;
        }
        d.user_streams.insert(name, content.clone());
    }

    // ---- summary information ----------------------------------------------------
    if let Some(s) = d.entries.get("\u{5}SummaryInformation") {
        match parse_summary(s, &mut problems) {
            Ok(sum) => d.summary = Some(sum),
            Err(e) => problems.push(format!("summary information: {}", e)),
        }
    } else {
        problems.push("no \\u{5}SummaryInformation stream".into());
    }
    d.problems = problems;
    Ok(d)
}

pub const FMTID: [u8; 16] = [0xe0, 0x85, 0x9f, 0xf2, 0xf9, 0x4f, 0x68, 0x10, 0xab, 0x91, 0x08, 0x00, 0x2b, 0x27, 0xb3, 0xd9];

/// Strict property-set parser.
pub fn parse_summary(s: &[u8], problems: &mut Vec<String>) -> Result<DecSummary, String> {
    if s.len() < 48 {
        return Err(format!("stream of {} bytes is shorter than the 48-byte header", s.len()));
    }
    if u16le(s, 0) != 0xfffe {
        return Err("byte-order mark is not 0xFFFE".into());
    }
    let version = u16le(s, 2);
    if version > 1 {
        return Err(format!("format version {}", version));
    }
    let os_kind = u16le(s, 6);
    if os_kind > 2 {
        problems.push(format!("summary: OS kind {}", os_kind));
    }
    let sections = u32le(s, 24);
    if sections < 1 {
        return Err("section count 0".into());
    }
    if s[28..44] != FMTID {
        return Err("FMTID is not the summary-information format id".into());
    }
    let so = u32le(s, 44) as usize;
    if so % 4 != 0 {
        problems.push(format!("summary: section offset {} not 4-byte aligned", so));
    }
    if so + 8 > s.len() {
        return Err(format!("section offset {} beyond the stream", so));
    }
    let size = u32le(s, so) as usize;
    let count = u32le(s, so + 4) as usize;
    if so + 8 + 8 * count > s.len() {
        return Err(format!("{} properties do not fit in the stream", count));
    }
    let mut sum = DecSummary { format_version: version, section_offset: so as u32, section_size: size as u32, ..DecSummary::default() };
    let mut furthest = 8 + 8 * count;
    let mut spans: Vec<(usize, usize, u32)> = Vec::new();
    for i in 0..count {
        let id = u32le(s, so + 8 + 8 * i);
        let off = u32le(s, so + 12 + 8 * i) as usize;
        if off % 4 != 0 {
            problems.push(format!("summary: property {} offset {} not 4-byte aligned", id, off));
        }
        if off < 8 + 8 * count {
            problems.push(format!("summary: property {} offset {} points into the section header", id, off));
        }
        let p = so + off;
        if p + 4 > s.len() {
            problems.push(format!("summary: property {} offset {} beyond the stream", id, off));
            continue;
        }
        let ty = u32le(s, p);
        let need = |n: usize| -> Result<(), String> {
            if p + 4 + n > s.len() {
                Err(format!("property {} value runs past the stream", id))
            } else {
                Ok(())
            }
        };
        let (val, used) = match ty {
            0 => (PropVal::Empty, 4),
            1 => (PropVal::Null, 4),
            2 => {
                need(2)?;
                (PropVal::I2(u16le(s, p + 4) as i16), 8)
            }
            3 => {
                need(4)?;
                (PropVal::I4(u32le(s, p + 4) as i32), 8)
            }
            16 => {
                need(1)?;
                if version < 1 {
                    problems.push(format!("summary: property {} of type I1 in a version-0 set", id));
                }
                (PropVal::I1(s[p + 4] as i8), 8)
            }
            30 => {
                need(4)?;
                let n = u32le(s, p + 4) as usize;
                need(4 + n)?;
                if n == 0 {
                    // MS-OLEPS 2.5: a size of zero means no characters at all
                    (PropVal::Str(Vec::new()), 8)
                } else {
                    let body = &s[p + 8..p + 8 + n];
                    if body[n - 1] != 0 {
                        problems.push(format!("summary: property {} string is not NUL-terminated", id));
                    }
                    (PropVal::Str(body[..n - 1].to_vec()), 8 + ((n + 3) / 4) * 4)
                }
            }
            64 => {
                need(8)?;
                let lo = u32le(s, p + 4) as u64;
                let hi = u32le(s, p + 8) as u64;
                (PropVal::FileTime(lo | (hi << 32)), 12)
            }
            t => {
                problems.push(format!("summary: property {} offset {} does not point at a typed value (type {})", id, off, t));
                continue;
            }
        };
        spans.push((off, off + used, id));
        furthest = furthest.max(off + used);
        if sum.props.insert(id, (off as u32, val)).is_some() {
            problems.push(format!("summary: property {} listed twice", id));
        }
    }
    spans.sort();
    for w in spans.windows(2) {
        if w[0].1 > w[1].0 {
            problems.push(format!("summary: values of properties {} and {} overlap", w[0].2, w[1].2));
        }
    }
    if size != furthest {
        problems.push(format!("summary: section size {} but the values end at {}", size, furthest));
    }
    if so + size > s.len() {
        problems.push(format!("summary: section (offset {} size {}) exceeds the stream length {}", so, size, s.len()));
    }
    if let Some((_, PropVal::I2(cp))) = sum.props.get(&1) {
        sum.codepage = Some(*cp as u16);
    } else if sum.props.contains_key(&1) {
        problems.push("summary: code page property is not an I2".into());
    }
    Ok(sum)
}

/// String accounting (C08): refcount(entry) = number of referring cells in all
/// tables; unused entries empty; no live empty entry; every reference live.
pub fn accounting_problems(d: &Decoded) -> Vec<String> {
    let mut out = Vec::new();
    let mut counts: Vec<u64> = vec![0; d.pool.len() + 1];
    for (tn, t) in d.tables.iter() {
        for (ri, row) in t.rows.iter().enumerate() {
            for (ci, c) in row.iter().enumerate() {
                if let Cell::Ref(id) = c {
                    if *id as usize > d.pool.len() {
                        out.push(format!("table {:?} row {} column {}: string reference {} beyond the pool ({} entries)", tn, ri, ci, id, d.pool.len()));
                    } else {
                        counts[*id as usize] += 1;
                    }
                }
            }
        }
    }
    if !d.long_refs && d.pool.len() > 0xffff {
        out.push(format!("{} pool entries with 2-byte references", d.pool.len()));
    }
    for (i, e) in d.pool.iter().enumerate() {
        let id = i + 1;
        let refs = counts[id];
        if e.refcount as u64 != refs {
            out.push(format!(
                "pool entry {} ({:?}): reference count {} but {} cell(s) refer to it",
                id,
                ref_decode(d.effective_codepage(), &e.bytes[..e.bytes.len().min(24)]),
                e.refcount,
                refs
            ));
        }
        if e.refcount == 0 && e.len != 0 {
            out.push(format!("pool entry {}: unused (count 0) but holds {} bytes of text", id, e.len));
        }
        if e.refcount > 0 && e.len == 0 {
            out.push(format!("pool entry {}: live (count {}) but is the empty string", id, e.refcount));
        }
    }
    out
}

//! E1 — explicit-state exploration of operation sequences on the real
//! `Package`: level-synchronous BFS, states re-derived by re-execution,
//! deduplicated by a canonical key; a reference model is stepped in lock-step.

use crate::dec;
use crate::ops::{Expect, Harness, Model, Op, Outcome};
use crate::report::{Report, Violation};
use crate::snapshot::{snapshot, Snapshot};
use crate::spec::{ColSpec, Tri};
use crate::val::{Bin, Val, E};
use rayon::prelude::*;
use serde_json::json;
use std::collections::hash_map::DefaultHasher;
use std::collections::{BTreeMap, BTreeSet};
use std::hash::{Hash, Hasher};
use std::sync::atomic::{AtomicBool, Ordering};
use std::time::{Duration, Instant};

#[derive(Clone, Copy, Default)]
pub struct Monitors {
    /// snapshot after every Ok transition equals the model (C03 + frame)
    pub model: bool,
    /// after every Err transition nothing changed (C04)
    pub unchanged_on_err: bool,
    /// key order / uniqueness / cell validity in every state (C05)
    pub invariants: bool,
    /// every state closed 3 ways reopens to the same observation (C01)
    pub roundtrip: bool,
    /// saved bytes decode independently, exact string accounting (C08)
    pub wellformed: bool,
    /// select battery in every state (C03)
    pub selects: bool,
    /// strict parse of the summary stream (C10)
    pub summary_stream: bool,
    /// raw container listing vs stream listing (C11)
    pub stream_listing: bool,
    /// compare stream names modulo the container's name comparison (C11)
    pub stream_class_compare: bool,
}

pub struct Config {
    pub property: &'static str,
    /// start from these bytes (opened) instead of `Package::create`
    pub seed: Option<Vec<u8>>,
    pub ptype: u8,
    pub setup: Vec<Op>,
    pub alphabet: Vec<Op>,
    /// calls applied at every state but never expanded (invalid-call menu)
    pub probes: Vec<Op>,
    /// stream names probed (has_stream / read_stream) in every state (C11)
    pub stream_names: Vec<String>,
    pub max_depth: usize,
    pub wall_cap: Duration,
    pub monitors: Monitors,
    /// keep at most this many merge audits
    pub merge_audits: usize,
    /// run the no-dedup enumeration to this depth and compare key sets
    pub nodedup_depth: usize,
}

#[derive(Clone, Copy, PartialEq, Eq, Hash, PartialOrd, Ord, Debug)]
pub struct Key(pub u64, pub u64);

fn hash2<T: Hash>(t: &T) -> Key {
    let mut a = DefaultHasher::new();
    0x9e37u16.hash(&mut a);
    t.hash(&mut a);
    let mut b = DefaultHasher::new();
    0x51edu16.hash(&mut b);
    t.hash(&mut b);
    Key(a.finish(), b.finish())
}

#[derive(Clone)]
struct StateRec {
    history: Vec<u16>,
    key: Key,
    /// an alternative history that reached the same key (for the merge audit)
    alt: Option<Vec<u16>>,
}

#[derive(Default)]
struct TransResult {
    key: Option<Key>,
    outcome_class: String,
    ok: bool,
    violations: Vec<Violation>,
    diverged: bool,
}

pub struct Fresh {
    pub snapshot: Snapshot,
}

pub fn fresh(ptype: u8) -> Fresh {
    let mut h = Harness::create(ptype).expect("create");
    Fresh { snapshot: snapshot(h.p()).expect("snapshot of fresh package") }
}

pub fn fresh_for(cfg: &Config) -> Fresh {
    match &cfg.seed {
        None => fresh(cfg.ptype),
        Some(b) => {
            let mut h = Harness::open(b.clone()).expect("seed opens");
            let snap = match snapshot(h.p()) {
                Ok(s) => s,
                Err(_) => {
                    // the accessor cross-checks failed on the seed itself: take
                    // the baseline without them; the exploration's own state
                    // checks will report the disagreement as a violation
                    use std::sync::atomic::Ordering;
                    crate::snapshot::ACCESSOR_CHECKS.store(false, Ordering::Relaxed);
                    let s = snapshot(h.p());
                    crate::snapshot::ACCESSOR_CHECKS.store(true, Ordering::Relaxed);
                    s.expect("snapshot of seed")
                }
            };
            Fresh { snapshot: snap }
        }
    }
}

fn start(cfg: &Config, fr: &Fresh) -> Result<(Harness, Model), String> {
    match &cfg.seed {
        None => Ok((Harness::create(cfg.ptype)?, Model::new(cfg.ptype, &fr.snapshot))),
        Some(b) => Ok((Harness::open(b.clone())?, Model::from_snapshot(&fr.snapshot))),
    }
}

fn session_bits(ops: &[&Op]) -> u8 {
    let mut bits = 0u8;
    for op in ops {
        match op {
            Op::Flush | Op::Reopen | Op::DropReopen => bits = 0,
            Op::Summary(_) => bits |= 1,
            Op::CreateTable { .. }
            | Op::DropTable { .. }
            | Op::Insert { .. }
            | Op::Update { .. }
            | Op::Delete { .. }
            | Op::SetDbCodepage(_) => bits |= 2,
            Op::WriteStream { .. } | Op::WriteStreamDrop { .. } | Op::RemoveStream { .. } | Op::RemoveSignature => bits |= 4,
            Op::ReadMissing { .. } | Op::BadSelect { .. } => {}
        }
    }
    bits
}

fn vio(cfg: &Config, monitor: &str, op: Option<&Op>, class: &str, detail: String, hist: &[&Op]) -> Violation {
    let sig = format!("{}:{}:{}", monitor, op.map(|o| o.kind()).unwrap_or("state"), class);
    let ops: Vec<&Op> = hist.to_vec();
    Violation {
        signature: sig,
        detail: format!("{} | history: {}", detail, hist.iter().map(|o| o.show()).collect::<Vec<_>>().join(" ; ")),
        replay: json!({"kind":"e1-history","property":cfg.property,"ptype":cfg.ptype,"setup":cfg.setup,"ops":ops,"seed_hex":cfg.seed.as_ref().map(|b| hex(b))}),
    }
}

pub fn hex(b: &[u8]) -> String {
    b.iter().map(|x| format!("{:02x}", x)).collect()
}

pub fn unhex(s: &str) -> Vec<u8> {
    (0..s.len() / 2).map(|i| u8::from_str_radix(&s[2 * i..2 * i + 2], 16).unwrap_or(0)).collect()
}

/// Key of a closed state + what the save looks like.
fn content_key(snap: &Snapshot, bytes: &[u8], bits: u8) -> Result<Key, String> {
    let (clsid, entries, storages) = dec::container_entries(bytes)?;
    Ok(hash2(&(snap, clsid, entries, storages, bits)))
}

/// Replays `setup + history` on a fresh package and model.  Returns None if
/// the replay itself misbehaves (then a violation was already reported on an
/// earlier level and the state should not have been expanded).
fn replay(cfg: &Config, fr: &Fresh, hist: &[&Op]) -> Result<(Harness, Model), String> {
    let (mut h, mut m) = start(cfg, fr)?;
    for op in cfg.setup.iter().chain(hist.iter().cloned()) {
        let o = h.apply(op);
        if let Outcome::Panic(p) = &o {
            return Err(format!("panic while replaying {}: {}", op.show(), p));
        }
        if h.pkg.is_none() {
            return Err(format!("package lost while replaying {}: {:?}", op.show(), o));
        }
        m.apply(op, o.is_ok());
    }
    Ok((h, m))
}

fn ops_of<'a>(cfg: &'a Config, idx: &[u16]) -> Vec<&'a Op> {
    idx.iter().map(|&i| &cfg.alphabet[i as usize]).collect()
}

/// Executes one transition: replay history, apply `op`, compare with the
/// model, close with into_inner, compute the key of the successor.
fn exec(cfg: &Config, fr: &Fresh, hist_idx: &[u16], op: Option<&Op>) -> TransResult {
    let hist = ops_of(cfg, hist_idx);
    let mut res = TransResult::default();
    let (mut h, mut m) = match replay(cfg, fr, &hist) {
        Ok(x) => x,
        Err(e) => {
            res.violations.push(vio(cfg, "machinery", op, "replay-diverged", e, &hist));
            return res;
        }
    };
    let mut full: Vec<&Op> = hist.clone();
    let pre = match snapshot(h.p()) {
        Ok(s) => s,
        Err(p) => {
            res.violations.push(vio(cfg, "C09like", op, "snapshot-panic", format!("snapshot of the pre-state panicked: {}", p), &hist));
            return res;
        }
    };
    let mut expect = Expect::Ok;
    let mut outcome = Outcome::Ok;
    if let Some(op) = op {
        full.push(op);
        outcome = h.apply(op);
        expect = m.apply(op, outcome.is_ok());
        res.diverged = m.diverged;
        res.outcome_class = format!("{}:{}", op.kind(), match &outcome {
            Outcome::Ok => "ok".to_string(),
            Outcome::Err(e) => format!("err:{}", e.split(':').next().unwrap_or("")),
            Outcome::Panic(_) => "panic".to_string(),
        });
        match (&outcome, expect) {
            (Outcome::Panic(p), _) => {
                res.violations.push(vio(cfg, "no-panic", Some(op), &crate::report::panic_site(p), format!("{} panicked: {}", op.show(), p), &full));
                return res;
            }
            (Outcome::Ok, Expect::Err) => {
                res.violations.push(vio(cfg, "enabledness", Some(op), "accepted-but-must-fail", format!("{} returned Ok but the reference model refuses it", op.show()), &full));
                return res;
            }
            (Outcome::Err(e), Expect::Ok) => {
                res.violations.push(vio(cfg, "enabledness", Some(op), "refused-but-must-succeed", format!("{} returned Err({}) but the reference model accepts it", op.show(), e), &full));
                // still check that nothing changed
            }
            _ => {}
        }
        if h.pkg.is_none() {
            res.violations.push(vio(cfg, "close", Some(op), "package-lost", format!("{} failed and the package is gone: {:?}", op.show(), outcome), &full));
            return res;
        }
    }
    res.ok = outcome.is_ok();
    let post = match snapshot(h.p()) {
        Ok(s) => s,
        Err(p) => {
            res.violations.push(vio(cfg, "no-panic", op, "snapshot-panic", format!("reading the package after the call panicked: {}", p), &full));
            return res;
        }
    };
    if m.diverged {
        return res;
    }
    if outcome.is_ok() {
        if cfg.monitors.model {
            // the format has one stored value for "" and null (C01): identify them
            let mut want = m.expected_snapshot().normalized();
            let mut got = post.normalized();
            if cfg.monitors.stream_class_compare {
                for sn in [&mut want, &mut got] {
                    for st in sn.streams.iter_mut() {
                        st.0 = crate::ops::name_class(&st.0);
                    }
                    sn.streams.sort();
                }
            }
            if let Some(d) = want.diff(&got) {
                res.violations.push(vio(cfg, "model", op, &diff_class(&d), format!("after {} the package differs from the relational model (model vs package): {}", op.map(|o| o.show()).unwrap_or_default(), d), &full));
                return res;
            }
        }
    } else if cfg.monitors.unchanged_on_err {
        if let Some(d) = pre.diff(&post) {
            res.violations.push(vio(cfg, "unchanged-on-error", op, &diff_class(&d), format!("{} returned an error ({:?}) but changed the package (before vs after): {}", op.map(|o| o.show()).unwrap_or_default(), outcome, d), &full));
            return res;
        }
    }
    // close with into_inner
    let bits = session_bits(&cfg.setup.iter().chain(full.iter().cloned()).collect::<Vec<_>>());
    let bytes = match h.close_into_inner() {
        Ok(b) => b,
        Err(e) => {
            res.violations.push(vio(cfg, "close", op, "into_inner-failed", e, &full));
            return res;
        }
    };
    match content_key(&post, &bytes, bits) {
        Ok(k) => res.key = Some(k),
        Err(e) => {
            res.violations.push(vio(cfg, "wellformed", op, "container-unreadable", e, &full));
            return res;
        }
    }
    if !outcome.is_ok() && cfg.monitors.unchanged_on_err {
        // what is read back after saving and reopening must equal the
        // pre-state as well
        match Harness::open(bytes.clone()) {
            Err(e) => res.violations.push(vio(cfg, "unchanged-on-error", op, "reopen-fails", format!("after the failed call the saved package does not reopen: {}", e), &full)),
            Ok(mut h2) => match snapshot(h2.p()) {
                Err(p) => res.violations.push(vio(cfg, "no-panic", op, "snapshot-panic", p, &full)),
                Ok(s2) => {
                    if let Some(d) = pre.normalized().diff(&s2.normalized()) {
                        res.violations.push(vio(cfg, "unchanged-on-error", op, &format!("reopened:{}", diff_class(&d)), format!("after the failed call {} the reopened package differs from the state before the call: {}", op.map(|o| o.show()).unwrap_or_default(), d), &full));
                    }
                }
            },
        }
    }
    // checks on the into_inner close of this (possibly new) state
    res.violations.extend(close_checks(cfg, "into_inner", &post, &bytes, &m, &full));
    res
}

/// Coarse class of a snapshot difference, for signatures.
fn diff_class(d: &str) -> String {
    let w: Vec<&str> = d.split_whitespace().collect();
    match w.first().copied() {
        Some("table") => {
            if w.get(1) == Some(&"list") {
                "table-list".into()
            } else if w.get(2) == Some(&"rows") {
                let cat = w.get(1).map(|n| n.starts_with('_')).unwrap_or(false);
                if cat { "catalog-rows".into() } else { "rows".into() }
            } else if w.get(2) == Some(&"column") || w.get(2) == Some(&"has") {
                "schema".into()
            } else {
                "reported-length".into()
            }
        }
        Some("streams") => "streams".into(),
        Some("summary") => "summary".into(),
        Some("database") => "codepage".into(),
        Some("package") => "package-type".into(),
        Some("has_digital_signature") => "signature".into(),
        _ => "other".into(),
    }
}

/// Oracles on the bytes produced by closing a state in one of the 3 ways.
pub fn close_checks(cfg: &Config, mode: &str, pre: &Snapshot, bytes: &[u8], m: &Model, full: &[&Op]) -> Vec<Violation> {
    let mut out = Vec::new();
    let last = full.last().cloned();
    if cfg.monitors.wellformed || cfg.monitors.summary_stream || cfg.monitors.stream_listing {
        match dec::decode(bytes) {
            Err(e) => out.push(vio(cfg, "wellformed", last, &format!("{}:undecodable", mode), format!("independent decoder cannot read the file saved by {}: {}", mode, e), full)),
            Ok(d) => {
                if cfg.monitors.wellformed {
                    for p in d.problems.iter().filter(|p| !p.starts_with("summary")) {
                        out.push(vio(cfg, "wellformed", last, &format!("{}:{}", mode, problem_class(p)), format!("file saved by {}: {}", mode, p), full));
                    }
                    for p in dec::accounting_problems(&d) {
                        out.push(vio(cfg, "accounting", last, &format!("{}:{}", mode, problem_class(&p)), format!("file saved by {}: {}", mode, p), full));
                    }
                    out.extend(decoded_vs_model(cfg, mode, &d, m, full));
                }
                if cfg.monitors.summary_stream {
                    for p in d.problems.iter().filter(|p| p.starts_with("summary")) {
                        out.push(vio(cfg, "summary-stream", last, &format!("{}:{}", mode, problem_class(p)), format!("file saved by {}: {}", mode, p), full));
                    }
                    out.extend(summary_vs_model(cfg, mode, &d, m, full));
                }
                if cfg.monitors.stream_listing {
                    let listed: BTreeSet<String> = pre.streams.iter().map(|s| s.0.clone()).collect();
                    let raw: BTreeSet<String> = d.user_streams.keys().cloned().collect();
                    if listed != raw {
                        out.push(vio(cfg, "stream-listing", last, &format!("{}:raw-vs-listing", mode), format!("container holds user streams {:?} but streams() listed {:?}", raw, listed), full));
                    }
                }
            }
        }
    }
    if cfg.monitors.roundtrip {
        match Harness::open(bytes.to_vec()) {
            Err(e) => out.push(vio(cfg, "roundtrip", last, &format!("{}:reopen-fails", mode), format!("bytes left by {} do not reopen: {}", mode, e), full)),
            Ok(mut h2) => match snapshot(h2.p()) {
                Err(p) => out.push(vio(cfg, "no-panic", last, "snapshot-panic", p, full)),
                Ok(s2) => {
                    let (want, s2b) = representable_only(&pre.normalized(), &s2.normalized());
                    if let Some(d) = want.diff(&s2b) {
                        out.push(vio(cfg, "roundtrip", last, &format!("{}:{}", mode, diff_class(&d)), format!("closed by {}, reopened: before close vs after reopen: {}", mode, d), full));
                    } else {
                        // save again without change, reopen again
                        match h2.close_into_inner() {
                            Err(e) => out.push(vio(cfg, "roundtrip", last, &format!("{}:second-save-fails", mode), e, full)),
                            Ok(b2) => match Harness::open(b2) {
                                Err(e) => out.push(vio(cfg, "roundtrip", last, &format!("{}:second-reopen-fails", mode), e, full)),
                                Ok(mut h3) => match snapshot(h3.p()) {
                                    Err(p) => out.push(vio(cfg, "no-panic", last, "snapshot-panic", p, full)),
                                    Ok(s3) => {
                                        if let Some(d) = s2.diff(&s3) {
                                            out.push(vio(cfg, "roundtrip", last, &format!("{}:second-save:{}", mode, diff_class(&d)), format!("a second save and reopen without change altered: {}", d), full));
                                        }
                                    }
                                },
                            },
                        }
                    }
                }
            },
        }
    }
    out
}

/// Summary strings are promised to survive only "when representable in the
/// chosen code page": blank out, on both sides, the summary strings that the
/// summary code page (as set before closing) cannot represent.
pub fn representable_only(before: &Snapshot, after: &Snapshot) -> (Snapshot, Snapshot) {
    let mut a = before.clone();
    let mut b = after.clone();
    let cp = before.summary.codepage;
    let ok = |s: &Option<String>| -> bool {
        match s {
            None => true,
            Some(t) => crate::c14::ref_decode(cp, &crate::c14::ref_encode(cp, t)) == *t,
        }
    };
    macro_rules! field {
        ($f:ident) => {
            if !ok(&a.summary.$f) {
                a.summary.$f = Some("<unrepresentable>".into());
                b.summary.$f = Some("<unrepresentable>".into());
            }
        };
    }
    field!(title);
    field!(subject);
    field!(author);
    field!(comments);
    field!(creating_app);
    field!(arch);
    (a, b)
}

fn problem_class(p: &str) -> String {
    // first few words without numbers / quoted names
    let mut words = Vec::new();
    for w in p.split_whitespace() {
        if w.chars().any(|c| c.is_ascii_digit()) || w.starts_with('"') || w.starts_with('(') {
            continue;
        }
        words.push(w.trim_matches(|c: char| !c.is_alphanumeric() && c != '_'));
        if words.len() >= 5 {
            break;
        }
    }
    words.join("-")
}

fn decoded_vs_model(cfg: &Config, mode: &str, d: &dec::Decoded, m: &Model, full: &[&Op]) -> Vec<Violation> {
    let mut out = Vec::new();
    let last = full.last().cloned();
    let want_cp = m.db_codepage;
    if d.effective_codepage() != want_cp {
        out.push(vio(cfg, "wellformed", last, &format!("{}:pool-codepage", mode), format!("pool header says code page {} but the package's is {}", d.codepage_id, want_cp), full));
    }
    let clsid = match m.ptype {
        0 => "000C1084-0000-0000-C000-000000000046",
        1 => "000C1086-0000-0000-C000-000000000046",
        _ => "000C1082-0000-0000-C000-000000000046",
    };
    if d.clsid != clsid {
        out.push(vio(cfg, "wellformed", last, &format!("{}:clsid", mode), format!("root class id {} for package type {}", d.clsid, m.ptype), full));
    }
    // _Tables lists exactly the existing tables (+ _Validation)
    let mut want: BTreeSet<String> = m.tables.keys().cloned().collect();
    want.insert("_Validation".into());
    let got: BTreeSet<String> = d.tables.keys().filter(|k| *k != "_Tables" && *k != "_Columns").cloned().collect();
    if want != got {
        out.push(vio(cfg, "wellformed", last, &format!("{}:catalog-table-list", mode), format!("_Tables lists {:?}, the package has {:?}", got, want), full));
    }
    for (name, tm) in &m.tables {
        let dt = match d.tables.get(name) {
            Some(t) => t,
            None => continue,
        };
        // (the 0x100 / 0x400 bits are outside every property: masked)
        let want_cols: Vec<(String, i32)> = tm.cols.iter().map(|c| (c.name.clone(), c.type_word() & !0x500)).collect();
        let got_cols: Vec<(String, i32)> = dt.cols.iter().map(|(n, t)| (n.clone(), t & !0x500)).collect();
        if got_cols != want_cols {
            out.push(vio(cfg, "wellformed", last, &format!("{}:catalog-columns", mode), format!("_Columns describes {} as {:?}, expected {:?}", name, dt.cols, want_cols), full));
            continue;
        }
        let mut rows: Vec<Vec<Val>> = Vec::new();
        let mut bad = false;
        for r in &dt.rows {
            let mut row = Vec::new();
            for c in r {
                row.push(match c {
                    dec::Cell::Null => Val::Null,
                    dec::Cell::Int(n) => Val::Int(*n),
                    dec::Cell::Ref(id) => match d.text(*id) {
                        Some(t) => Val::Str(t),
                        None => {
                            bad = true;
                            Val::Null
                        }
                    },
                });
            }
            rows.push(row);
        }
        if bad {
            continue; // reported by accounting
        }
        let want_rows: Vec<Vec<Val>> = tm.rows.iter().map(|r| r.iter().map(|v| v.norm_empty()).collect()).collect();
        // text must be what the database code page can represent
        let want_rows: Vec<Vec<Val>> = want_rows
            .into_iter()
            .map(|r| {
                r.into_iter()
                    .map(|v| match v {
                        Val::Str(s) => Val::Str(crate::c14::ref_decode(want_cp, &crate::c14::ref_encode(want_cp, &s))),
                        v => v,
                    })
                    .collect()
            })
            .collect();
        if rows != want_rows {
            out.push(vio(cfg, "wellformed", last, &format!("{}:decoded-rows", mode), format!("table {} decodes to {} but the model has {}", name, crate::snapshot::show_rows(&Ok(rows)), crate::snapshot::show_rows(&Ok(want_rows))), full));
        }
    }
    out
}

fn summary_vs_model(cfg: &Config, mode: &str, d: &dec::Decoded, m: &Model, full: &[&Op]) -> Vec<Violation> {
    let mut out = Vec::new();
    let last = full.last().cloned();
    let s = match &d.summary {
        Some(s) => s,
        None => return out,
    };
    let cp = m.summary.codepage;
    let enc = |x: &Option<String>| -> Option<Vec<u8>> { x.as_ref().map(|t| crate::c14::ref_encode(cp, t)) };
    let get_str = |id: u32| -> Option<Vec<u8>> {
        match s.props.get(&id) {
            Some((_, dec::PropVal::Str(b))) => Some(b.clone()),
            _ => None,
        }
    };
    let mut cmp = |what: &str, id: u32, want: Option<Vec<u8>>| {
        let got = get_str(id);
        if got != want {
            out.push(vio(cfg, "summary-stream", last, &format!("{}:{}", mode, what), format!("summary stream property {} ({}) holds {:?}, expected {:?} (code page {})", id, what, got, want, cp), full));
        }
    };
    cmp("title", 2, enc(&m.summary.title));
    cmp("subject", 3, enc(&m.summary.subject));
    cmp("author", 4, enc(&m.summary.author));
    cmp("comments", 6, enc(&m.summary.comments));
    cmp("creating-app", 18, enc(&m.summary.creating_app));
    cmp("uuid", 9, m.summary.uuid.as_ref().map(|u| format!("{{{}}}", u.to_uppercase()).into_bytes()));
    let want_cp = if cp == 65001 { 65001u16 } else { cp as u16 };
    if s.codepage != Some(want_cp) {
        out.push(vio(cfg, "summary-stream", last, &format!("{}:codepage", mode), format!("summary stream code page property is {:?}, expected {}", s.codepage, want_cp), full));
    }
    let wc = match s.props.get(&15) {
        Some((_, dec::PropVal::I4(n))) => Some(*n),
        _ => None,
    };
    if wc != m.summary.word_count {
        out.push(vio(cfg, "summary-stream", last, &format!("{}:word-count", mode), format!("word count {:?} vs {:?}", wc, m.summary.word_count), full));
    }
    let ft = match s.props.get(&12) {
        Some((_, dec::PropVal::FileTime(t))) => Some(*t as i128 - 116_444_736_000_000_000i128),
        _ => None,
    };
    if ft != m.summary.creation_ticks.map(|t| t as i128) {
        out.push(vio(cfg, "summary-stream", last, &format!("{}:creation-time", mode), format!("creation time ticks {:?} vs {:?}", ft, m.summary.creation_ticks), full));
    }
    out
}

/// Invariants on a snapshot (C05).
pub fn invariant_violations(cfg: &Config, s: &Snapshot, when: &str, full: &[&Op]) -> Vec<Violation> {
    let mut out = Vec::new();
    let last = full.last().cloned();
    for t in &s.tables {
        let rows = match &t.rows {
            Ok(r) => r,
            Err(e) => {
                out.push(vio(cfg, "invariant", last, &format!("{}:select-fails", when), format!("table {} cannot be selected: {}", t.name, e), full));
                continue;
            }
        };
        let k: Vec<usize> = t.cols.iter().enumerate().filter(|(_, c)| c.key).map(|(i, _)| i).collect();
        for w in rows.windows(2) {
            let a: Vec<Val> = k.iter().map(|&i| w[0][i].norm_empty()).collect();
            let b: Vec<Val> = k.iter().map(|&i| w[1][i].norm_empty()).collect();
            if a == b {
                out.push(vio(cfg, "invariant", last, &format!("{}:duplicate-key", when), format!("table {} holds two rows with key {:?}", t.name, a), full));
                break;
            } else if a > b {
                out.push(vio(cfg, "invariant", last, &format!("{}:key-order", when), format!("table {} holds key {:?} before {:?}", t.name, a, b), full));
                break;
            }
        }
        'rows: for r in rows {
            for (c, v) in t.cols.iter().zip(r.iter()) {
                if !cell_valid(c, v) {
                    out.push(vio(cfg, "invariant", last, &format!("{}:invalid-cell", when), format!("table {} column {} holds {} which the column does not declare valid", t.name, c.name, v.show()), full));
                    break 'rows;
                }
            }
        }
    }
    out
}

/// A stored null in a string column is the same stored value as "".
pub fn cell_valid(c: &ColSpec, v: &Val) -> bool {
    match v {
        Val::Null => c.accepts(&Val::Null) != Tri::Reject || (matches!(c.ty, crate::spec::Ty::Str(_)) && c.accepts(&Val::s("")) != Tri::Reject),
        v => c.accepts(v) != Tri::Reject,
    }
}

/// Select battery (C03): every condition x projection on every model table.
pub fn select_battery(cfg: &Config, h: &mut Harness, m: &Model, full: &[&Op]) -> (u64, Vec<Violation>) {
    let mut out = Vec::new();
    let mut n = 0u64;
    let last = full.last().cloned();
    for (name, t) in &m.tables {
        let first = &t.cols[0];
        let mut conds: Vec<Option<E>> = vec![None];
        for c in &t.cols {
            match c.ty {
                crate::spec::Ty::Str(_) => {
                    conds.push(Some(E::bin(Bin::Eq, E::col(&c.name), E::str("a"))));
                    conds.push(Some(E::bin(Bin::Eq, E::col(&c.name), E::null())));
                    conds.push(Some(E::col(&c.name)));
                }
                _ => {
                    conds.push(Some(E::bin(Bin::Eq, E::col(&c.name), E::int(1))));
                    conds.push(Some(E::bin(Bin::Lt, E::col(&c.name), E::int(2))));
                    conds.push(Some(E::un(crate::val::Un::Not, E::bin(Bin::Eq, E::col(&c.name), E::int(1)))));
                    conds.push(Some(E::bin(Bin::Or, E::bin(Bin::Eq, E::col(&c.name), E::int(3)), E::bin(Bin::Eq, E::col(&first.name), E::Lit(match first.ty { crate::spec::Ty::Str(_) => Val::s("b"), _ => Val::Int(2) })))));
                }
            }
        }
        let names: Vec<String> = t.cols.iter().map(|c| c.name.clone()).collect();
        let mut projs: Vec<Vec<String>> = vec![vec![]];
        projs.push(vec![names[names.len() - 1].clone()]);
        if names.len() > 1 {
            let mut rev = names.clone();
            rev.reverse();
            projs.push(rev);
            projs.push(vec![names[0].clone(), names[0].clone()]);
        }
        for cond in &conds {
            for proj in &projs {
                n += 1;
                // reference
                let mut want: Vec<Vec<Val>> = Vec::new();
                let mut unsure = false;
                for r in &t.rows {
                    let keep = match cond {
                        None => true,
                        Some(e) => {
                            let look = |cn: &str| -> Val { t.col_index(cn).map(|i| r[i].clone()).unwrap_or(Val::Null) };
                            let vals = crate::val::ref_eval(e, &look);
                            let ts: BTreeSet<bool> = vals.iter().map(|v| v.truthy()).collect();
                            if ts.len() != 1 {
                                unsure = true;
                            }
                            *ts.iter().next().unwrap()
                        }
                    };
                    if keep {
                        if proj.is_empty() {
                            want.push(r.clone());
                        } else {
                            want.push(proj.iter().map(|p| r[t.col_index(p).unwrap()].clone()).collect());
                        }
                    }
                }
                if unsure {
                    continue;
                }
                let got = crate::report::catch(|| {
                    let mut q = msi::Select::table(name.clone());
                    if !proj.is_empty() {
                        q = q.columns(&proj[..]);
                    }
                    if let Some(c) = cond {
                        q = q.with(c.to_msi());
                    }
                    match h.p().select_rows(q) {
                        Err(e) => Err(e.to_string()),
                        Ok(rows) => {
                            let reported = rows.len();
                            let colnames: Vec<String> = rows.columns().iter().map(|c| c.name().to_string()).collect();
                            let mut v = Vec::new();
                            let mut by_name_ok = true;
                            for row in rows {
                                if row.len() != colnames.len() {
                                    by_name_ok = false;
                                }
                                let vals: Vec<Val> = (0..row.len()).map(|i| Val::from_msi(&row[i])).collect();
                                for (i, cn) in colnames.iter().enumerate() {
                                    // Row[name] returns the first column of that name
                                    let firsti = colnames.iter().position(|x| x == cn).unwrap();
                                    if row.has_column(cn) && Val::from_msi(&row[cn.as_str()]) != vals[firsti] {
                                        by_name_ok = false;
                                    }
                                    let _ = i;
                                }
                                v.push(vals);
                            }
                            Ok((reported, colnames, v, by_name_ok))
                        }
                    }
                });
                let desc = format!("select {:?} from {} where {}", proj, name, cond.as_ref().map(|c| c.show()).unwrap_or("-".into()));
                match got {
                    Err(p) => out.push(vio(cfg, "no-panic", last, "select-panic", format!("{} panicked: {}", desc, p), full)),
                    Ok(Err(e)) => out.push(vio(cfg, "select", last, "select-error", format!("{} failed: {}", desc, e), full)),
                    Ok(Ok((reported, colnames, rows, by_name_ok))) => {
                        let want_cols: Vec<String> = if proj.is_empty() { names.clone() } else { proj.clone() };
                        if colnames != want_cols {
                            out.push(vio(cfg, "select", last, "columns", format!("{} reports columns {:?}", desc, colnames), full));
                        } else if rows != want {
                            out.push(vio(cfg, "select", last, if cond.is_some() { "filtered-rows" } else { "rows" }, format!("{} returned {} expected {}", desc, crate::snapshot::show_rows(&Ok(rows)), crate::snapshot::show_rows(&Ok(want))), full));
                        } else if reported != rows.len() {
                            out.push(vio(cfg, "select", last, "reported-length", format!("{} reported length {} but yielded {}", desc, reported, rows.len()), full));
                        } else if !by_name_ok {
                            out.push(vio(cfg, "select", last, "row-indexing", format!("{}: Row[name] / Row::len disagree with the positional values", desc), full));
                        }
                    }
                }
            }
        }
    }
    (n, out)
}

/// Per-state oracles that need their own re-execution: the two other close
/// modes, invariants, select battery, probes.
fn state_checks(cfg: &Config, fr: &Fresh, hist_idx: &[u16]) -> (u64, u64, Vec<Violation>) {
    let hist = ops_of(cfg, hist_idx);
    let mut out = Vec::new();
    let mut selects = 0u64;
    let mut probes = 0u64;
    // live-state checks
    if cfg.monitors.invariants || cfg.monitors.selects {
        match replay(cfg, fr, &hist) {
            Err(e) => out.push(vio(cfg, "machinery", None, "replay-diverged", e, &hist)),
            Ok((mut h, m)) => {
                if cfg.monitors.invariants {
                    match snapshot(h.p()) {
                        Ok(s) => out.extend(invariant_violations(cfg, &s, "live", &hist)),
                        Err(p) => out.push(vio(cfg, "no-panic", None, "snapshot-panic", p, &hist)),
                    }
                }
                if cfg.monitors.selects {
                    let (n, v) = select_battery(cfg, &mut h, &m, &hist);
                    selects += n;
                    out.extend(v);
                }
                if cfg.monitors.invariants {
                    // again after reopening
                    if let Ok(b) = h.close_into_inner() {
                        if let Ok(mut h2) = Harness::open(b) {
                            if let Ok(s) = snapshot(h2.p()) {
                                out.extend(invariant_violations(cfg, &s, "reopened", &hist));
                            }
                        }
                    }
                }
            }
        }
    }
    if cfg.monitors.roundtrip || cfg.monitors.wellformed || cfg.monitors.summary_stream || cfg.monitors.stream_listing {
        for mode in ["flush-alive", "drop"] {
            match replay(cfg, fr, &hist) {
                Err(e) => out.push(vio(cfg, "machinery", None, "replay-diverged", e, &hist)),
                Ok((mut h, m)) => {
                    let pre = match snapshot(h.p()) {
                        Ok(s) => s,
                        Err(p) => {
                            out.push(vio(cfg, "no-panic", None, "snapshot-panic", p, &hist));
                            continue;
                        }
                    };
                    let bytes = if mode == "drop" { h.close_drop() } else { h.flush_and_peek() };
                    match bytes {
                        Err(e) => out.push(vio(cfg, "close", hist.last().cloned(), &format!("{}-failed", mode), e, &hist)),
                        Ok(b) => out.extend(close_checks(cfg, mode, &pre, &b, &m, &hist)),
                    }
                }
            }
        }
    }
    if !cfg.stream_names.is_empty() {
        match replay(cfg, fr, &hist) {
            Err(e) => out.push(vio(cfg, "machinery", None, "replay-diverged", e, &hist)),
            Ok((mut h, m)) => {
                let listed: Vec<String> = crate::report::catch(|| h.p().streams().map(|n| crate::ops::name_class(&n)).collect::<Vec<String>>()).unwrap_or_default();
                for name in &cfg.stream_names {
                    probes += 1;
                    let cls = crate::ops::name_class(name);
                    // has_stream must agree with the listing (internal streams
                    // are in neither)
                    if let Ok(has) = crate::report::catch(|| h.p().has_stream(name)) {
                        if has != listed.contains(&cls) {
                            out.push(vio(cfg, "stream-content", hist.last().cloned(), "has-stream-disagrees-with-listing", format!("has_stream({:?}) = {} but the listing {} it", name, has, if has { "does not contain" } else { "contains" }), &hist));
                        }
                    }
                    let want: Option<&Vec<u8>> = m.streams.iter().find(|(k, _)| crate::ops::name_class(k) == cls).map(|(_, v)| v);
                    let got = crate::report::catch(|| {
                        let has = h.p().has_stream(name);
                        let content = match h.p().read_stream(name) {
                            Ok(mut r) => {
                                let mut b = Vec::new();
                                std::io::Read::read_to_end(&mut r, &mut b).map(|_| b).map_err(|e| e.to_string())
                            }
                            Err(e) => Err(e.to_string()),
                        };
                        (has, content)
                    });
                    let unspecified = crate::ops::stream_name_class(name) == Tri::Unspecified;
                    match got {
                        Err(p) => out.push(vio(cfg, "no-panic", hist.last().cloned(), &format!("stream-probe:{}", crate::report::panic_site(&p)), format!("has_stream/read_stream({:?}) panicked: {}", name, p), &hist)),
                        Ok((has, content)) => match want {
                            Some(bytes) => {
                                if !has || content.as_ref().ok() != Some(bytes) {
                                    out.push(vio(cfg, "stream-content", hist.last().cloned(), "live-stream-not-readable", format!("stream {:?} was written ({} bytes) but has_stream={} read={:?}", name, bytes.len(), has, content.map(|b| b.len())), &hist));
                                }
                            }
                            None => {
                                if (has || content.is_ok()) && !unspecified {
                                    out.push(vio(cfg, "stream-content", hist.last().cloned(), "phantom-stream", format!("stream {:?} was never written (or was removed) but has_stream={} read={:?}", name, has, content.map(|b| b.len())), &hist));
                                } else if unspecified && content.is_ok() {
                                    // an odd name the library accepts must not
                                    // give access to another stream's bytes
                                    let b = content.unwrap();
                                    out.push(vio(cfg, "stream-content", hist.last().cloned(), "alias-through-odd-name", format!("stream name {:?} was never written but reads {} bytes (aliases another stream or internal data)", name, b.len()), &hist));
                                }
                            }
                        },
                    }
                }
            }
        }
    }
    // probes: calls that must fail and change nothing
    for p in &cfg.probes {
        probes += 1;
        let r = exec_probe(cfg, fr, &hist, p);
        out.extend(r);
    }
    (selects, probes, out)
}

fn exec_probe(cfg: &Config, fr: &Fresh, hist: &[&Op], probe: &Op) -> Vec<Violation> {
    let mut out = Vec::new();
    let (mut h, mut m) = match replay(cfg, fr, hist) {
        Ok(x) => x,
        Err(e) => return vec![vio(cfg, "machinery", Some(probe), "replay-diverged", e, hist)],
    };
    let mut full: Vec<&Op> = hist.to_vec();
    full.push(probe);
    let pre = match snapshot(h.p()) {
        Ok(s) => s,
        Err(p) => return vec![vio(cfg, "no-panic", Some(probe), "snapshot-panic", p, hist)],
    };
    let outcome = h.apply(probe);
    let expect = m.apply(probe, outcome.is_ok());
    match (&outcome, expect) {
        (Outcome::Panic(p), _) => {
            out.push(vio(cfg, "no-panic", Some(probe), &crate::report::panic_site(p), format!("{} panicked: {}", probe.show(), p), &full));
            return out;
        }
        (Outcome::Ok, Expect::Err) => {
            out.push(vio(cfg, "enabledness", Some(probe), "accepted-but-must-fail", format!("{} returned Ok but must be refused", probe.show()), &full));
            return out;
        }
        (Outcome::Err(e), Expect::Ok) => {
            out.push(vio(cfg, "enabledness", Some(probe), "refused-but-must-succeed", format!("{} returned Err({})", probe.show(), e), &full));
        }
        _ => {}
    }
    if h.pkg.is_none() {
        return out;
    }
    let post = match snapshot(h.p()) {
        Ok(s) => s,
        Err(p) => {
            out.push(vio(cfg, "no-panic", Some(probe), "snapshot-panic", p, &full));
            return out;
        }
    };
    if outcome.is_ok() {
        if cfg.monitors.model && !m.diverged {
            if let Some(d) = m.expected_snapshot().normalized().diff(&post.normalized()) {
                out.push(vio(cfg, "model", Some(probe), &diff_class(&d), format!("after {}: model vs package: {}", probe.show(), d), &full));
            }
        }
        return out;
    }
    if let Some(d) = pre.diff(&post) {
        out.push(vio(cfg, "unchanged-on-error", Some(probe), &diff_class(&d), format!("{} returned {:?} but changed the package (before vs after): {}", probe.show(), outcome, d), &full));
        return out;
    }
    match h.close_into_inner() {
        Err(e) => out.push(vio(cfg, "close", Some(probe), "into_inner-failed", e, &full)),
        Ok(b) => match Harness::open(b) {
            Err(e) => out.push(vio(cfg, "unchanged-on-error", Some(probe), "reopen-fails", format!("after the failed call the saved package does not reopen: {}", e), &full)),
            Ok(mut h2) => match snapshot(h2.p()) {
                Err(p) => out.push(vio(cfg, "no-panic", Some(probe), "snapshot-panic", p, &full)),
                Ok(s2) => {
                    if let Some(d) = pre.normalized().diff(&s2.normalized()) {
                        out.push(vio(cfg, "unchanged-on-error", Some(probe), &format!("reopened:{}", diff_class(&d)), format!("after the failed {} the reopened package differs: {}", probe.show(), d), &full));
                    }
                }
            },
        },
    }
    out
}

pub struct Stats {
    pub states: u64,
    pub transitions: u64,
    pub max_depth_completed: usize,
    pub per_depth: Vec<u64>,
    pub ok_transitions: u64,
    pub err_transitions: u64,
    pub distinct_outcomes: usize,
    pub selects: u64,
    pub probes: u64,
    pub merges: u64,
    pub merge_audits: u64,
    pub merge_audit_failures: u64,
    pub nodedup_sequences: u64,
    pub nodedup_keys_missing: u64,
    pub cap_hit: bool,
    pub pruned_states: u64,
    pub diverged: u64,
    pub determinism_replays: u64,
}

pub fn explore(cfg: &Config, rep: &mut Report) -> Stats {
    let fr = fresh_for(cfg);
    let start = Instant::now();
    let stop = AtomicBool::new(false);
    let mut st = Stats {
        states: 0,
        transitions: 0,
        max_depth_completed: 0,
        per_depth: vec![],
        ok_transitions: 0,
        err_transitions: 0,
        distinct_outcomes: 0,
        selects: 0,
        probes: 0,
        merges: 0,
        merge_audits: 0,
        merge_audit_failures: 0,
        nodedup_sequences: 0,
        nodedup_keys_missing: 0,
        cap_hit: false,
        pruned_states: 0,
        diverged: 0,
        determinism_replays: 0,
    };
    let mut outcomes: BTreeSet<String> = BTreeSet::new();
    let mut seen: BTreeMap<Key, usize> = BTreeMap::new();
    // initial state
    let r0 = exec(cfg, &fr, &[], None);
    let r0b = exec(cfg, &fr, &[], None);
    st.determinism_replays += 1;
    if r0.key != r0b.key || r0.key.is_none() {
        rep.extend(r0.violations);
        eprintln!("MACHINERY: initial state not reproducible or not closable");
        rep.notes.push("initial state not reproducible".into());
        return st;
    }
    rep.extend(r0.violations);
    let k0 = r0.key.unwrap();
    seen.insert(k0, 0);
    let (sel, pr, v) = state_checks(cfg, &fr, &[]);
    st.selects += sel;
    st.probes += pr;
    rep.extend(v);
    st.states = 1;
    st.per_depth.push(1);
    let mut frontier: Vec<StateRec> = vec![StateRec { history: vec![], key: k0, alt: None }];
    let mut all_keys_by_depth: Vec<BTreeSet<Key>> = vec![[k0].into_iter().collect()];
    let mut audits: Vec<(Vec<u16>, Vec<u16>)> = Vec::new();

    for depth in 1..=cfg.max_depth {
        if frontier.is_empty() {
            break;
        }
        let work: Vec<(usize, u16)> = (0..frontier.len()).flat_map(|s| (0..cfg.alphabet.len() as u16).map(move |o| (s, o))).collect();
        let results: Vec<Option<TransResult>> = work
            .par_iter()
            .map(|(s, o)| {
                if stop.load(Ordering::Relaxed) {
                    return None;
                }
                if start.elapsed() > cfg.wall_cap {
                    stop.store(true, Ordering::Relaxed);
                    return None;
                }
                Some(exec(cfg, &fr, &frontier[*s].history, Some(&cfg.alphabet[*o as usize])))
            })
            .collect();
        if results.iter().any(|r| r.is_none()) {
            st.cap_hit = true;
            rep.notes.push(format!("wall cap hit while expanding depth {}; only depths <= {} are claimed", depth, depth - 1));
            break;
        }
        let mut next: BTreeMap<Key, StateRec> = BTreeMap::new();
        for ((s, o), r) in work.iter().zip(results.into_iter()) {
            let r = r.unwrap();
            st.transitions += 1;
            if r.ok {
                st.ok_transitions += 1;
            } else {
                st.err_transitions += 1;
            }
            outcomes.insert(r.outcome_class.clone());
            let had_violation = !r.violations.is_empty();
            rep.extend(r.violations);
            if r.diverged {
                st.diverged += 1;
                continue;
            }
            if had_violation {
                st.pruned_states += 1;
                continue; // do not expand states behind a violation
            }
            let key = match r.key {
                Some(k) => k,
                None => continue,
            };
            let mut h = frontier[*s].history.clone();
            h.push(*o);
            if seen.contains_key(&key) {
                st.merges += 1;
                continue;
            }
            match next.get_mut(&key) {
                None => {
                    next.insert(key, StateRec { history: h, key, alt: None });
                }
                Some(rec) => {
                    st.merges += 1;
                    // keep the lexicographically smallest history as the
                    // representative, the largest as the audit alternative
                    if h < rec.history {
                        let old = std::mem::replace(&mut rec.history, h);
                        if rec.alt.as_ref().map(|a| &old > a).unwrap_or(true) {
                            rec.alt = Some(old);
                        }
                    } else if rec.alt.as_ref().map(|a| &h > a).unwrap_or(true) {
                        rec.alt = Some(h);
                    }
                }
            }
        }
        let new_states: Vec<StateRec> = next.into_values().collect();
        // determinism: replay the first new state of the level a second time
        if let Some(s) = new_states.first() {
            let (pre, last) = s.history.split_at(s.history.len() - 1);
            let again = exec(cfg, &fr, pre, Some(&cfg.alphabet[last[0] as usize]));
            st.determinism_replays += 1;
            if again.key != Some(s.key) {
                eprintln!("MACHINERY: re-execution of a stored history produced a different key");
                rep.notes.push("determinism failure".into());
                std::process::exit(2);
            }
        }
        // per-state oracles
        let checks: Vec<Option<(u64, u64, Vec<Violation>)>> = new_states
            .par_iter()
            .map(|s| {
                if stop.load(Ordering::Relaxed) {
                    return None;
                }
                if start.elapsed() > cfg.wall_cap {
                    stop.store(true, Ordering::Relaxed);
                    return None;
                }
                Some(state_checks(cfg, &fr, &s.history))
            })
            .collect();
        if checks.iter().any(|c| c.is_none()) {
            st.cap_hit = true;
            rep.notes.push(format!("wall cap hit while checking the states of depth {}; only depths <= {} are claimed", depth, depth - 1));
            break;
        }
        let mut keep: Vec<StateRec> = Vec::new();
        for (s, c) in new_states.into_iter().zip(checks.into_iter()) {
            let (sel, pr, v) = c.unwrap();
            st.selects += sel;
            st.probes += pr;
            let bad = !v.is_empty();
            rep.extend(v);
            seen.insert(s.key, depth);
            if let Some(a) = &s.alt {
                if audits.len() < cfg.merge_audits {
                    audits.push((s.history.clone(), a.clone()));
                }
            }
            if bad {
                st.pruned_states += 1;
            } else {
                keep.push(s);
            }
        }
        st.states += keep.len() as u64;
        st.per_depth.push(keep.len() as u64);
        all_keys_by_depth.push(keep.iter().map(|s| s.key).collect());
        st.max_depth_completed = depth;
        if rep.samples.len() < 6 {
            if let Some(s) = keep.get(keep.len() / 2) {
                rep.sample(json!({"depth": depth, "history": ops_of(cfg, &s.history).iter().map(|o| o.show()).collect::<Vec<_>>()}));
            }
        }
        frontier = keep;
    }

    // merge audit: both histories of a merged state must have the same
    // successor keys under every operation
    if !audits.is_empty() && !st.cap_hit {
        let res: Vec<bool> = audits
            .par_iter()
            .map(|(a, b)| {
                for o in 0..cfg.alphabet.len() as u16 {
                    let ra = exec(cfg, &fr, a, Some(&cfg.alphabet[o as usize]));
                    let rb = exec(cfg, &fr, b, Some(&cfg.alphabet[o as usize]));
                    if ra.key != rb.key {
                        return false;
                    }
                }
                true
            })
            .collect();
        st.merge_audits = res.len() as u64;
        st.merge_audit_failures = res.iter().filter(|x| !**x).count() as u64;
        if st.merge_audit_failures > 0 {
            rep.notes.push(format!("{} merge audits failed: the state key is too coarse", st.merge_audit_failures));
        }
    }
    // no-dedup enumeration to a smaller depth: same reachable keys
    if cfg.nodedup_depth > 0 && !st.cap_hit {
        let d = cfg.nodedup_depth.min(st.max_depth_completed);
        let n = cfg.alphabet.len();
        let total: usize = n.pow(d as u32);
        let known: BTreeSet<Key> = seen.keys().cloned().collect();
        let missing: u64 = (0..total)
            .into_par_iter()
            .map(|mut i| {
                let mut h: Vec<u16> = Vec::with_capacity(d);
                for _ in 0..d {
                    h.push((i % n) as u16);
                    i /= n;
                }
                let (pre, last) = h.split_at(d - 1);
                let r = exec(cfg, &fr, pre, Some(&cfg.alphabet[last[0] as usize]));
                match r.key {
                    Some(k) if !known.contains(&k) && r.violations.is_empty() => 1u64,
                    _ => 0,
                }
            })
            .sum();
        st.nodedup_sequences = total as u64;
        st.nodedup_keys_missing = missing;
    }
    st.distinct_outcomes = outcomes.len();
    st
}

pub fn fill_report(cfg: &Config, st: &Stats, rep: &mut Report) {
    rep.set("states", st.states);
    rep.set("transitions", st.transitions + st.probes);
    rep.set("traces_validated_against_impl", st.transitions + st.probes);
    rep.set("max_depth_completed", st.max_depth_completed);
    rep.set("states_per_depth", st.per_depth.clone());
    rep.set("alphabet_size", cfg.alphabet.len());
    rep.set("alphabet", cfg.alphabet.iter().map(|o| o.show()).collect::<Vec<_>>());
    rep.set("probe_menu_size", cfg.probes.len());
    rep.set("probe_calls", st.probes);
    rep.set("ok_transitions", st.ok_transitions);
    rep.set("err_transitions", st.err_transitions);
    rep.set("distinct_outcomes", st.distinct_outcomes);
    rep.set("select_queries", st.selects);
    rep.set("merged_transitions", st.merges);
    rep.set("merge_audits", st.merge_audits);
    rep.set("merge_audit_failures", st.merge_audit_failures);
    rep.set("nodedup_sequences", st.nodedup_sequences);
    rep.set("nodedup_keys_not_in_bfs", st.nodedup_keys_missing);
    rep.set("states_not_expanded_because_of_a_violation", st.pruned_states);
    rep.set("paths_where_reference_is_undetermined", st.diverged);
    rep.set("determinism_replays", st.determinism_replays);
    rep.set("caps_hit", st.cap_hit);
    rep.set("exhaustive", !st.cap_hit);
    rep.set("evaluations", st.transitions + st.probes);
    rep.set("distinct_nontrivial", st.states);
}

/// Replays a recorded history outside the explorer, printing every step.
pub fn replay_history(doc: &serde_json::Value) {
    let ptype = doc["ptype"].as_u64().unwrap_or(0) as u8;
    let setup: Vec<Op> = serde_json::from_value(doc["setup"].clone()).unwrap_or_default();
    let ops: Vec<Op> = serde_json::from_value(doc["ops"].clone()).expect("ops");
    let seed = doc["seed_hex"].as_str().map(unhex);
    let (mut h, mut m) = match &seed {
        None => {
            let fr = fresh(ptype);
            (Harness::create(ptype).expect("create"), Model::new(ptype, &fr.snapshot))
        }
        Some(b) => {
            let mut h0 = Harness::open(b.clone()).expect("seed opens");
            let snap = snapshot(h0.p()).expect("snapshot");
            (Harness::open(b.clone()).expect("seed opens"), Model::from_snapshot(&snap))
        }
    };
    for op in setup.iter().chain(ops.iter()) {
        let o = h.apply(op);
        let e = m.apply(op, o.is_ok());
        println!("{:<60} -> {:?} (reference: {:?})", op.show(), o, e);
        if h.pkg.is_none() {
            println!("package gone");
            return;
        }
    }
    match snapshot(h.p()) {
        Ok(s) => {
            match m.expected_snapshot().diff(&s) {
                None => println!("package equals the model"),
                Some(d) => println!("model vs package: {}", d),
            }
            for t in &s.tables {
                if !t.name.starts_with('_') {
                    println!("  {} = {}", t.name, crate::snapshot::show_rows(&t.rows));
                }
            }
            let pre = s.clone();
            match h.close_into_inner() {
                Ok(b) => {
                    match dec::decode(&b) {
                        Ok(d) => {
                            for p in d.problems.iter().chain(dec::accounting_problems(&d).iter()) {
                                println!("  decoder: {}", p);
                            }
                        }
                        Err(e) => println!("  decoder: {}", e),
                    }
                    match Harness::open(b) {
                        Ok(mut h2) => match snapshot(h2.p()) {
                            Ok(s2) => match pre.normalized().diff(&s2) {
                                None => println!("reopened package equals the package before closing"),
                                Some(d) => println!("before close vs reopened: {}", d),
                            },
                            Err(p) => println!("snapshot after reopen panicked: {}", p),
                        },
                        Err(e) => println!("reopen failed: {}", e),
                    }
                }
                Err(e) => println!("into_inner: {}", e),
            }
        }
        Err(p) => println!("snapshot panicked: {}", p),
    }
}

/// Runs one fixed history (no exploration): model comparison after every
/// step, then all three close modes with the oracles of `cfg.monitors`.
pub fn linear_history_checks(cfg: &Config, fr: &Fresh, ops: &[Op]) -> Vec<Violation> {
    let mut out = Vec::new();
    let hist: Vec<&Op> = ops.iter().collect();
    // step-by-step
    let (mut h, mut m) = match start(cfg, fr) {
        Ok(x) => x,
        Err(e) => return vec![vio(cfg, "machinery", None, "start", e, &[])],
    };
    for (i, op) in ops.iter().enumerate() {
        let o = h.apply(op);
        let e = m.apply(op, o.is_ok());
        let upto: Vec<&Op> = ops[..=i].iter().collect();
        match (&o, e) {
            (Outcome::Panic(p), _) => {
                out.push(vio(cfg, "no-panic", Some(op), &crate::report::panic_site(p), format!("{} panicked: {}", op.show(), p), &upto));
                return out;
            }
            (Outcome::Err(er), Expect::Ok) => {
                out.push(vio(cfg, "enabledness", Some(op), "refused-but-must-succeed", format!("{} returned Err({})", op.show(), er), &upto));
                return out;
            }
            (Outcome::Ok, Expect::Err) => {
                out.push(vio(cfg, "enabledness", Some(op), "accepted-but-must-fail", format!("{} returned Ok", op.show()), &upto));
                return out;
            }
            _ => {}
        }
        if h.pkg.is_none() {
            out.push(vio(cfg, "close", Some(op), "package-lost", format!("{:?}", o), &upto));
            return out;
        }
        if cfg.monitors.model && !m.diverged {
            match snapshot(h.p()) {
                Err(p) => {
                    out.push(vio(cfg, "no-panic", Some(op), "snapshot-panic", p, &upto));
                    return out;
                }
                Ok(s) => {
                    if let Some(d) = m.expected_snapshot().normalized().diff(&s.normalized()) {
                        out.push(vio(cfg, "model", Some(op), &diff_class(&d), format!("after {}: model vs package: {}", op.show(), d), &upto));
                        return out;
                    }
                }
            }
        }
    }
    drop(h);
    for mode in ["into_inner", "flush-alive", "drop"] {
        let (mut h, m) = match replay(cfg, fr, &hist) {
            Ok(x) => x,
            Err(e) => {
                out.push(vio(cfg, "machinery", None, "replay-diverged", e, &hist));
                continue;
            }
        };
        let pre = match snapshot(h.p()) {
            Ok(s) => s,
            Err(p) => {
                out.push(vio(cfg, "no-panic", None, "snapshot-panic", p, &hist));
                continue;
            }
        };
        if cfg.monitors.invariants && mode == "into_inner" {
            out.extend(invariant_violations(cfg, &pre, "live", &hist));
        }
        let bytes = match mode {
            "into_inner" => h.close_into_inner(),
            "drop" => h.close_drop(),
            _ => h.flush_and_peek(),
        };
        match bytes {
            Err(e) => out.push(vio(cfg, "close", hist.last().cloned(), &format!("{}-failed", mode), e, &hist)),
            Ok(b) => out.extend(close_checks(cfg, mode, &pre, &b, &m, &hist)),
        }
    }
    out
}

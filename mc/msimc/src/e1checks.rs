//! The E1-based checks: C01, C03, C04, C05, C08 (tables), C10 (summary),
//! C11 (streams).  Each chooses an alphabet and the monitors it claims.

use crate::e1::{explore, fill_report, Config, Monitors};
use crate::ops::{Op, SumOp};
use crate::report::{Report, Tier};
use crate::spec::{ColSpec, Ty};
use crate::val::{Bin, Un, Val, E};
use std::time::Duration;

pub fn t1() -> Op {
    Op::CreateTable { name: "T1".into(), cols: vec![ColSpec::new("K", Ty::I16).key(), ColSpec::new("S", Ty::Str(8)).nullable()] }
}
pub fn t2() -> Op {
    Op::CreateTable {
        name: "T2".into(),
        cols: vec![
            ColSpec::new("A", Ty::Str(4)).key(),
            ColSpec::new("B", Ty::I32).key().nullable(),
            ColSpec::new("C", Ty::Str(0)).nullable().localizable(),
        ],
    }
}
pub fn t3() -> Op {
    Op::CreateTable { name: "T3".into(), cols: vec![ColSpec::new("K", Ty::Str(8)).key().nullable()] }
}

/// Attributes that do not belong to the column's type: a value range on a
/// string column, an enumeration and a category on an integer column.
pub fn t4() -> Op {
    Op::CreateTable {
        name: "T4".into(),
        cols: vec![
            ColSpec::new("K", Ty::I16).key(),
            ColSpec::new("R", Ty::Str(8)).nullable().range(0, 9),
            ColSpec::new("E", Ty::I16).nullable().enums(&["1", "2"]).category("Integer"),
            // a declared range wider than the column's storage
            ColSpec::new("W", Ty::I16).nullable().range(0, 100000),
        ],
    }
}

fn i(n: i32) -> Val {
    Val::Int(n)
}
fn s(x: &str) -> Val {
    Val::s(x)
}
fn eq(c: &str, v: Val) -> E {
    E::bin(Bin::Eq, E::col(c), E::Lit(v))
}
fn ins(t: &str, rows: Vec<Vec<Val>>) -> Op {
    Op::Insert { table: t.into(), rows }
}
fn upd(t: &str, sets: Vec<(&str, Val)>, cond: Option<E>) -> Op {
    Op::Update { table: t.into(), sets: sets.into_iter().map(|(c, v)| (c.to_string(), v)).collect(), cond }
}
fn del(t: &str, cond: Option<E>) -> Op {
    Op::Delete { table: t.into(), cond }
}

/// DML alphabets, simplest first.  One big alphabet explored deeply wastes
/// its budget on interleavings of operations on unrelated tables, so the DML
/// space is covered by several explorations: all operations together to a
/// moderate depth, and one focused alphabet per table (or table pair) deeper.
pub fn dml_explorations(tier: Tier) -> Vec<(&'static str, Vec<Op>, usize)> {
    let t = tier.thorough();
    let t1_ops = vec![
        t1(),
        ins("T1", vec![vec![i(1), s("a")]]),
        ins("T1", vec![vec![i(2), Val::Null]]),
        Op::Reopen,
        del("T1", Some(eq("K", i(1)))),
        upd("T1", vec![("S", s("b"))], Some(eq("K", i(1)))),
        ins("T1", vec![vec![i(3), s("b")], vec![i(1), s("aa")]]),
        upd("T1", vec![("S", Val::Null)], None),
        upd("T1", vec![("K", i(2))], Some(eq("K", i(1)))),
        upd("T1", vec![("K", i(5))], None),
        del("T1", None),
        Op::DropTable { name: "T1".into() },
        del("T1", Some(E::bin(Bin::Or, E::bin(Bin::Lt, E::col("K"), E::int(2)), eq("S", s("b"))))),
        upd("T1", vec![("K", i(0))], Some(eq("S", s("a")))),
        ins("T1", vec![vec![i(3), s("")]]),
        // the same column assigned twice (the last assignment wins)
        upd("T1", vec![("K", i(7)), ("K", i(1))], Some(eq("K", i(2)))),
        upd("T1", vec![("K", i(1)), ("K", i(7))], Some(eq("K", i(2)))),
        // the empty string through update
        upd("T1", vec![("S", s(""))], Some(eq("K", i(1)))),
        // a batch that must be refused as a whole: its last row repeats the key
        // of its first row; its rows carry one new and one existing string
        ins("T1", vec![vec![i(7), s("n1")], vec![i(8), s("a")], vec![i(7), s("n3")]]),
    ];
    let t2_ops = vec![
        t2(),
        ins("T2", vec![vec![s("a"), i(1), s("x")]]),
        ins("T2", vec![vec![s("b"), Val::Null, s("a")]]),
        del("T2", Some(eq("A", s("a")))),
        upd("T2", vec![("C", s("a")), ("B", i(2))], Some(eq("B", Val::Null))),
        upd("T2", vec![("A", s("a"))], None),
        del("T2", Some(E::un(Un::Not, eq("B", i(1))))),
        Op::DropTable { name: "T2".into() },
        // a second table sharing the string "a"
        t1(),
        ins("T1", vec![vec![i(1), s("a")]]),
        Op::DropTable { name: "T1".into() },
        Op::Reopen,
    ];
    let t3_ops = vec![
        t3(),
        ins("T3", vec![vec![Val::Null]]),
        ins("T3", vec![vec![s("")]]),
        ins("T3", vec![vec![s("b")], vec![s("")]]),
        ins("T3", vec![vec![s("a")], vec![s("B")]]),
        ins("T3", vec![vec![s("")], vec![Val::Null]]),
        upd("T3", vec![("K", s(""))], Some(eq("K", s("b")))),
        upd("T3", vec![("K", s("a"))], Some(eq("K", Val::Null))),
        upd("T3", vec![("K", s("0"))], Some(E::un(Un::Not, eq("K", s("a"))))),
        del("T3", Some(E::col("K"))),
        del("T3", Some(eq("K", Val::Null))),
        Op::Reopen,
    ];
    let t4_ops = vec![
        t4(),
        ins("T4", vec![vec![i(1), s("r"), i(1), i(5)], vec![i(2), Val::Null, Val::Null, Val::Null]]),
        ins("T4", vec![vec![i(3), s(""), i(2), i(32767)]]),
        ins("T4", vec![vec![i(4), Val::Null, Val::Null, i(70000)]]),
        ins("T4", vec![vec![i(5), Val::Null, Val::Null, i(32768)]]),
        upd("T4", vec![("W", i(65541))], Some(eq("K", i(1)))),
        upd("T4", vec![("R", s("q")), ("E", i(2))], Some(eq("E", Val::Null))),
        upd("T4", vec![("K", i(9))], Some(eq("R", s("r")))),
        del("T4", Some(eq("E", i(1)))),
        Op::DropTable { name: "T4".into() },
        Op::Reopen,
        Op::DropReopen,
        Op::Flush,
    ];
    let mut mix: Vec<Op> = Vec::new();
    mix.extend(t1_ops.iter().take(12).cloned());
    mix.extend(t2_ops.iter().take(5).cloned());
    mix.extend(t3_ops.iter().take(3).cloned());
    mix.extend(t4_ops.iter().take(2).cloned());
    mix.push(Op::DropReopen);
    mix.push(Op::Flush);
    vec![
        ("all-tables", mix, if t { 8 } else { 6 }),
        ("T1", t1_ops, if t { 12 } else { 7 }),
        ("T2+T1", t2_ops, if t { 11 } else { 7 }),
        // the reachable spaces of these two are small: explored until the
        // frontier is empty (or the bound)
        ("T3-nullable-string-key", t3_ops, if t { 40 } else { 12 }),
        ("T4-cross-type-attributes", t4_ops, if t { 40 } else { 12 }),
    ]
}

/// Invalid-call menu (C04): every failure kind the API documents.
pub fn invalid_menu() -> Vec<Op> {
    let long40 = "A".repeat(40);
    let long33 = "B".repeat(33);
    let long64 = "C".repeat(64);
    let colk = |n: &str| ColSpec::new(n, Ty::I16).key();
    vec![
        // names
        Op::CreateTable { name: "".into(), cols: vec![colk("K")] },
        Op::CreateTable { name: "9x".into(), cols: vec![colk("K")] },
        Op::CreateTable { name: "_Tables".into(), cols: vec![colk("K")] },
        Op::CreateTable { name: "_Validation".into(), cols: vec![colk("K")] },
        Op::CreateTable { name: "T1".into(), cols: vec![colk("K")] }, // duplicate when T1 exists, otherwise a legal create (model decides)
        Op::CreateTable { name: "X".into(), cols: vec![] },
        Op::CreateTable { name: "X".into(), cols: vec![ColSpec::new("K", Ty::I16)] }, // no key
        Op::CreateTable { name: "X".into(), cols: vec![colk("K"), ColSpec::new("K", Ty::I32)] },
        Op::CreateTable { name: "X".into(), cols: vec![colk("K"), ColSpec::new("bad name", Ty::I32)] },
        Op::CreateTable { name: "X".into(), cols: (0..33).map(|n| colk(&format!("C{}", n))).collect() },
        // late failures: accepted by the name checks, not storable in the catalog
        Op::CreateTable { name: "L".into(), cols: vec![colk("K"), ColSpec::new(&long40, Ty::I16)] },
        Op::CreateTable { name: "L".into(), cols: vec![colk("K"), ColSpec::new(&long33, Ty::I16)] },
        Op::CreateTable { name: "L".into(), cols: vec![colk("K"), ColSpec::new(&long64, Ty::Str(3))] },
        Op::CreateTable { name: long40.clone(), cols: vec![colk("K")] },
        Op::CreateTable { name: long33.clone(), cols: vec![colk("K")] },
        Op::CreateTable { name: "L".into(), cols: vec![colk("K"), ColSpec::new("E", Ty::Str(0)).enums(&(0..64).map(|n| format!("v{:03}", n)).collect::<Vec<_>>().iter().map(|x| x.as_str()).collect::<Vec<_>>())] },
        Op::CreateTable { name: "L".into(), cols: vec![colk("K"), ColSpec::new("R", Ty::I32).range(i32::MIN, 0)] },
        Op::CreateTable { name: "L".into(), cols: vec![colk("K"), ColSpec::new("F", Ty::I16).fk("not an identifier", 1)] },
        Op::CreateTable { name: "L".into(), cols: vec![colk("K"), ColSpec::new("F", Ty::I16).fk("T", 0)] },
        Op::CreateTable { name: "L".into(), cols: vec![colk("K"), ColSpec::new("F", Ty::I16).fk("T", 33)] },
        Op::CreateTable { name: "L".into(), cols: vec![colk("K"), ColSpec::new("W", Ty::Str(0x8000))] },
        Op::CreateTable { name: "L".into(), cols: vec![colk("K"), ColSpec::new("W", Ty::Str(70000))] },
        // drop
        Op::DropTable { name: "Nope".into() },
        Op::DropTable { name: "_Columns".into() },
        Op::DropTable { name: "bad name".into() },
        Op::DropTable { name: "".into() },
        // insert
        ins("Nope", vec![vec![i(1)]]),
        ins("T1", vec![vec![]]),
        ins("T1", vec![vec![i(7)]]),
        ins("T1", vec![vec![i(7), s("x"), i(1)]]),
        ins("T1", vec![vec![s("x"), s("x")]]),
        ins("T1", vec![vec![i(40000), s("x")]]),
        ins("T1", vec![vec![i(-32768), s("x")]]),
        ins("T1", vec![vec![Val::Null, s("x")]]),
        ins("T1", vec![vec![i(7), s("123456789")]]),
        ins("T1", vec![vec![i(7), i(7)]]),
        ins("T1", vec![vec![i(7), s("ok")], vec![i(8), s("ok")], vec![i(9), s("toolongvalue")]]),
        ins("T1", vec![vec![i(7), s("new1")], vec![i(8), s("new2")], vec![i(7), s("new3")]]),
        ins("T1", vec![vec![i(7), s("new1")], vec![i(1), s("dup-of-existing-when-1-exists")]]),
        ins("T1", vec![vec![i(1), s("z")], vec![i(1), s("z")]]),
        // a value of the wrong kind that lies inside a range / enumeration declared
        // on a column of the other kind
        ins("T4", vec![vec![i(5), i(5), Val::Null, Val::Null]]),
        ins("T4", vec![vec![i(5), Val::Null, s("1"), Val::Null]]),
        ins("T4", vec![vec![i(5), s("ok"), i(2), Val::Null], vec![i(6), i(3), Val::Null, Val::Null]]),
        ins("T4", vec![vec![i(5), s("ok"), i(2), i(1)], vec![i(6), Val::Null, Val::Null, i(40000)]]),
        upd("T4", vec![("R", i(5))], None),
        upd("T4", vec![("E", s("1"))], None),
        upd("T4", vec![("E", i(1)), ("R", i(0))], Some(eq("K", i(1)))),
        ins("T2", vec![vec![s("abcde"), i(1), Val::Null]]),
        ins("T2", vec![vec![s("k"), i(i32::MIN), Val::Null]]),
        // update
        upd("Nope", vec![("S", s("x"))], None),
        upd("T1", vec![("Nope", s("x"))], None),
        upd("T1", vec![("S", s("x"))], Some(eq("Nope", i(1)))),
        upd("T1", vec![("S", i(1))], None),
        upd("T1", vec![("S", s("x")), ("K", s("x"))], None),
        upd("T1", vec![("S", s("123456789"))], None),
        upd("T1", vec![("K", Val::Null)], None),
        upd("T1", vec![("S", s("fresh")), ("K", i(40000))], None),
        // delete
        del("Nope", None),
        del("T1", Some(eq("Nope", i(1)))),
        del("T1", Some(E::bin(Bin::And, eq("K", i(1)), eq("Nope", i(1))))),
        // select
        Op::BadSelect { table: "Nope".into(), cols: vec![], cond: None },
        Op::BadSelect { table: "T1".into(), cols: vec!["Nope".into()], cond: None },
        Op::BadSelect { table: "T1".into(), cols: vec!["K".into(), "Nope".into()], cond: None },
        Op::BadSelect { table: "T1".into(), cols: vec![], cond: Some(eq("Nope", i(1))) },
        // streams
        Op::WriteStream { name: "".into(), len: 3, seed: 1 },
        Op::WriteStream { name: "x".repeat(63), len: 3, seed: 1 },
        Op::WriteStream { name: "\u{e9}".repeat(32), len: 3, seed: 1 },
        Op::RemoveStream { name: "missing".into() },
        Op::RemoveStream { name: "".into() },
        Op::ReadMissing { name: "missing".into() },
        Op::ReadMissing { name: "".into() },
        Op::ReadMissing { name: "T1".into() },
    ]
}

fn e1_common(rep: &mut Report) {
    rep.assume("cfb (the container library) behaves the same for every physical sector layout of the same logical content: the state key drops the physical layout (merge audits and the no-dedup enumeration test the key)");
    rep.assume("reference model and validity reference are in mc/msimc/src/ops.rs and spec.rs; the catalog rows describing _Validation itself are taken from a freshly created package (baseline)");
    rep.assume("states behind a reported violation are not expanded");
}

fn finish_e1(cfg: &Config, rep: Report, rule: &str) -> i32 {
    let c = Config { seed: cfg.seed.clone(), setup: cfg.setup.clone(), alphabet: cfg.alphabet.clone(), probes: cfg.probes.clone(), stream_names: cfg.stream_names.clone(), ..*cfg };
    finish_e1_multi(vec![("single".to_string(), c)], rep, rule)
}

/// Runs several explorations (one per alphabet) and reports their sum.
fn finish_e1_multi(cfgs: Vec<(String, Config)>, mut rep: Report, rule: &str) -> i32 {
    let mut total_states = 0u64;
    let mut total_transitions = 0u64;
    let mut details = Vec::new();
    let mut any_cap = false;
    let mut audit_fail = 0u64;
    let mut min_depth = usize::MAX;
    for (label, mut cfg) in cfgs {
        if let Ok(d) = std::env::var("MSIMC_DEPTH") {
            cfg.max_depth = d.parse().expect("MSIMC_DEPTH");
        }
        let st = explore(&cfg, &mut rep);
        fill_report(&cfg, &st, &mut rep);
        total_states += st.states;
        total_transitions += st.transitions + st.probes;
        any_cap |= st.cap_hit;
        audit_fail += st.merge_audit_failures + st.nodedup_keys_missing;
        min_depth = min_depth.min(st.max_depth_completed);
        details.push(serde_json::json!({
            "alphabet": label,
            "operations": cfg.alphabet.len(),
            "max_depth_completed": st.max_depth_completed,
            "states": st.states,
            "states_per_depth": st.per_depth,
            "transitions": st.transitions,
            "probe_calls": st.probes,
            "ok_transitions": st.ok_transitions,
            "err_transitions": st.err_transitions,
            "distinct_outcomes": st.distinct_outcomes,
            "select_queries": st.selects,
            "merge_audits": st.merge_audits,
            "nodedup_sequences": st.nodedup_sequences,
            "cap_hit": st.cap_hit,
        }));
    }
    if details.len() > 1 {
        rep.set("explorations", serde_json::Value::Array(details));
        rep.set("states", total_states);
        rep.set("transitions", total_transitions);
        rep.set("traces_validated_against_impl", total_transitions);
        rep.set("evaluations", total_transitions);
        rep.set("distinct_nontrivial", total_states);
        rep.set("max_depth_completed", min_depth);
        rep.set("caps_hit", any_cap);
        rep.set("exhaustive", !any_cap);
    }
    rep.set("rule", rule.to_string());
    if audit_fail > 0 && rep.violations.is_empty() {
        // Two histories that the state key merged turned out to have different
        // futures (or the no-dedup enumeration reached a key the BFS did not):
        // the implementation keeps state that neither the API observation nor
        // the saved bytes reveal (e.g. the order of an in-memory free list).
        // Merging then only loses coverage, never soundness of a reported
        // violation, so this is not an alarm: the run is marked non-exhaustive.
        eprintln!("NOTE: state key audit failed ({} case(s)): the exploration is not claimed exhaustive", audit_fail);
        rep.notes.push(format!("state key audit failed in {} case(s): merged states with different futures exist; the run is not claimed exhaustive at the reported depth", audit_fail));
        rep.set("exhaustive", false);
        rep.set("state_key_audit_failures", audit_fail);
    }
    rep.finish()
}

fn dml_configs(tier: Tier, property: &'static str, monitors: Monitors, probes: Vec<Op>, audits: bool, depth_delta: isize) -> Vec<(String, Config)> {
    dml_explorations(tier)
        .into_iter()
        .map(|(label, alphabet, depth)| {
            (
                label.to_string(),
                Config {
                    property,
                    seed: None,
                    ptype: 0,
                    setup: vec![],
                    alphabet,
                    probes: probes.clone(),
                    stream_names: vec![],
                    max_depth: (depth as isize + depth_delta).max(2) as usize,
                    wall_cap: Duration::from_secs(if tier.thorough() { 600 } else { 40 }),
                    monitors,
                    merge_audits: if audits { if tier.thorough() { 200 } else { 20 } } else { 0 },
                    nodedup_depth: if audits { if tier.thorough() { 3 } else { 2 } } else { 0 },
                },
            )
        })
        .collect()
}

pub fn run_c03(tier: Tier) -> i32 {
    let mut rep = Report::new("C03", tier, "model_checking");
    e1_common(&mut rep);
    let cfgs = dml_configs(tier, "C03", Monitors { model: true, selects: true, ..Monitors::default() }, vec![], true, 0);
    let (calls, _) = crate::c03e2::run(tier, &mut rep);
    rep.set("conditions_as_programs_evaluations", calls);
    finish_e1_multi(cfgs, rep, "second part (conditions as programs): every table content of <= 2 (thorough 3) rows over K in 1..3, A in {null,0,1,2}, S in {null,'a'} x every expression of depth <= 1 over {K,A,S,null,0,1,2,'','a'} and all 20 operators that mentions a column (+3 depth-2 shapes) as WHERE of select (all contents), delete and update (contents of <= 1 (3) rows) vs the reference filter. First part: five explorations (all tables together; T1; T2+T1 sharing strings; T3 with a nullable string key; T4 with attributes foreign to the column type), each all sequences over its alphabet up to its completed depth on the real Package; after every transition the full snapshot (all tables incl. catalog, streams, summary) is compared with the relational model; every distinct state runs the select battery (conditions x projections, order, length, Row indexing). distinct_nontrivial = distinct states")
}

pub fn run_c05(tier: Tier) -> i32 {
    let mut rep = Report::new("C05", tier, "model_checking");
    e1_common(&mut rep);
    let cfgs = dml_configs(tier, "C05", Monitors { invariants: true, ..Monitors::default() }, vec![], false, 0);
    // keys whose text the database code page cannot represent: two different
    // keys must not become one after saving
    {
        let t = Op::CreateTable { name: "U".into(), cols: vec![ColSpec::new("S", Ty::Str(8)).key(), ColSpec::new("N", Ty::I16).nullable()] };
        let two = ins("U", vec![vec![s("\u{4e00}"), i(1)], vec![s("\u{4e01}"), i(2)]]);
        let hists: Vec<Vec<Op>> = vec![
            vec![Op::SetDbCodepage(1252), t.clone(), two.clone(), Op::Reopen],
            vec![t.clone(), two.clone(), Op::SetDbCodepage(1252), Op::Reopen],
            vec![Op::SetDbCodepage(932), t.clone(), ins("U", vec![vec![s("\u{e9}"), i(1)], vec![s("\u{e8}"), i(2)]]), Op::Reopen],
            vec![Op::SetDbCodepage(1252), t.clone(), ins("U", vec![vec![s("\u{e9}"), i(1)], vec![s("\u{e8}"), i(2)]]), Op::Reopen],
        ];
        let lcfg = Config { alphabet: vec![], max_depth: 0, monitors: Monitors { invariants: true, ..Monitors::default() }, merge_audits: 0, nodedup_depth: 0, seed: None, setup: vec![], probes: vec![], stream_names: vec![], property: "C05", ptype: 0, wall_cap: Duration::from_secs(60) };
        let fr = crate::e1::fresh(0);
        for (hi, h) in hists.iter().enumerate() {
            for mut v in crate::e1::linear_history_checks(&lcfg, &fr, h) {
                v.signature = format!("keys-outside-the-code-page:history-{}:{}", hi + 1, v.signature);
                rep.violations.push(v);
            }
        }
        rep.set("code_page_key_histories", hists.len());
    }
    finish_e1_multi(cfgs, rep, "four histories with string keys that the database code page can / cannot represent; invariant monitor (strictly ascending key tuples, every cell valid for its column) on every state of the DML exploration, live and again after save + reopen. distinct_nontrivial = distinct states")
}

/// create_table on a package whose _Validation table already has rows for the
/// table being created (installer databases routinely carry _Validation rows
/// for tables they do not contain): whatever the answer, a refusal must leave
/// nothing behind and an acceptance must round-trip.
fn c04_stale_catalog_rows(rep: &mut Report) -> u64 {
    use crate::ops::{Harness, Outcome};
    use crate::snapshot::snapshot;
    let vrow = |t: &str, c: &str| vec![s(t), s(c), s("N"), Val::Null, Val::Null, Val::Null, Val::Null, Val::Null, Val::Null, Val::Null];
    let create = Op::CreateTable { name: "New".into(), cols: vec![ColSpec::new("K", Ty::I16).key(), ColSpec::new("S", Ty::Str(8)).nullable().category("Identifier")] };
    let greek = Op::CreateTable { name: "New".into(), cols: vec![ColSpec::new("K", Ty::I16).key(), ColSpec::new("S", Ty::Str(8)).nullable().enums(&["\u{3b1}", "\u{3b2}"])] };
    let plain = create.clone();
    // (label, state-building operations, the create_table under test)
    let variants: Vec<(&str, Vec<Op>, Op)> = vec![
        ("first-column", vec![ins("_Validation", vec![vrow("New", "K")])], plain.clone()),
        ("second-column", vec![ins("_Validation", vec![vrow("New", "S")])], plain.clone()),
        ("both-columns", vec![ins("_Validation", vec![vrow("New", "K"), vrow("New", "S")])], plain.clone()),
        ("another-column", vec![ins("_Validation", vec![vrow("New", "Zz")])], plain.clone()),
        // catalog strings that the database code page cannot represent
        ("enum-values-outside-the-code-page", vec![Op::SetDbCodepage(1252)], greek.clone()),
        ("enum-values-outside-the-code-page-932", vec![Op::SetDbCodepage(932), ins("T1", vec![vec![i(2), s("\u{3042}")]])], Op::CreateTable { name: "New".into(), cols: vec![ColSpec::new("K", Ty::I16).key(), ColSpec::new("S", Ty::Str(8)).nullable().enums(&["\u{e9}", "\u{1F600}"])] }),
    ];
    let mut n = 0u64;
    for (label, state_ops, create) in &variants {
        for pre_reopen in [false, true] {
            n += 1;
            let doc = serde_json::json!({"kind":"c04-stale","variant":label,"reopen_first":pre_reopen});
            let mut h = Harness::create(0).expect("create");
            let mut setup = vec![t1(), ins("T1", vec![vec![i(1), s("a")]])];
            setup.extend(state_ops.iter().cloned());
            if pre_reopen {
                setup.push(Op::Reopen);
            }
            let mut ok = true;
            for op in &setup {
                if !h.apply(op).is_ok() {
                    ok = false; // the library may refuse direct catalog edits: nothing to check then
                    break;
                }
            }
            if !ok || h.pkg.is_none() {
                continue;
            }
            let before = match snapshot(h.p()) {
                Ok(b) => b,
                Err(p) => {
                    rep.violation(format!("stale-validation-rows:{}:panic-reading", label), p, doc);
                    continue;
                }
            };
            match h.apply(create) {
                Outcome::Panic(p) => rep.violation(format!("stale-validation-rows:{}:panic:{}", label, crate::report::panic_site(&p)), format!("create_table on a package with leftover _Validation rows ({}) panicked: {}", label, p), doc),
                Outcome::Err(e) => {
                    if h.pkg.is_none() {
                        rep.violation(format!("stale-validation-rows:{}:package-lost", label), e, doc);
                        continue;
                    }
                    match snapshot(h.p()) {
                        Err(p) => rep.violation(format!("stale-validation-rows:{}:panic-reading", label), p, doc),
                        Ok(after) => {
                            if let Some(d) = before.normalized().diff(&after.normalized()) {
                                rep.violation(
                                    format!("error-but-changed:create_table:stale-validation-rows:{}", label),
                                    format!("_Validation already holds rows for table New ({}); create_table(New) returned Err({}) but the package changed: {}", label, e, d),
                                    doc,
                                );
                                continue;
                            }
                            // and what is saved is what was there before
                            if let Ok(bytes) = h.close_into_inner() {
                                match Harness::open(bytes) {
                                    Err(e2) => rep.violation(format!("error-then-unreadable:create_table:stale-validation-rows:{}", label), format!("after the refused create_table the saved package does not reopen: {}", e2), doc),
                                    Ok(mut h2) => {
                                        if let Ok(s2) = snapshot(h2.p()) {
                                            if let Some(d) = before.normalized().diff(&s2.normalized()) {
                                                rep.violation(format!("error-but-changed-after-reopen:create_table:stale-validation-rows:{}", label), format!("after the refused create_table and a reopen: {}", d), doc);
                                            }
                                        }
                                    }
                                }
                            }
                        }
                    }
                }
                Outcome::Ok => {
                    // accepted: the table must be there with its schema, now and after reopen
                    let live = snapshot(h.p());
                    let has = live.as_ref().map(|s| s.table("New").is_some()).unwrap_or(false);
                    if !has {
                        rep.violation(format!("stale-validation-rows:{}:accepted-but-missing", label), "create_table returned Ok but the table is not listed".into(), doc);
                        continue;
                    }
                    let live = live.unwrap();
                    if label.starts_with("enum-values") {
                        // whether unrepresentable text may be accepted at all is
                        // C06's question, not this check's
                        continue;
                    }
                    match h.close_into_inner().and_then(Harness::open) {
                        Err(e) => rep.violation(format!("stale-validation-rows:{}:accepted-then-unreadable", label), e, doc),
                        Ok(mut h2) => {
                            if let Ok(s2) = snapshot(h2.p()) {
                                if let Some(d) = live.normalized().diff(&s2.normalized()) {
                                    rep.violation(format!("stale-validation-rows:{}:accepted-but-differs-after-reopen", label), d, doc);
                                }
                            }
                        }
                    }
                }
            }
        }
    }
    n
}

pub fn run_c04(tier: Tier) -> i32 {
    let mut rep = Report::new("C04", tier, "model_checking");
    e1_common(&mut rep);
    let nstale = c04_stale_catalog_rows(&mut rep);
    rep.set("stale_validation_row_scenarios", nstale);
    let menu = invalid_menu();
    let cfgs = dml_configs(tier, "C04", Monitors { unchanged_on_err: true, ..Monitors::default() }, menu, false, if tier.thorough() { -1 } else { -2 });
    finish_e1_multi(cfgs, rep, "every state of the five DML explorations x the invalid-call menu (names, arity, values in first/middle/last row, duplicate keys, unknown columns, late create-table failures, stream calls); for every call that returns an error: snapshot equal before/after and equal after save + reopen; rejected alphabet operations are checked the same way; plus create_table on packages whose _Validation table already has rows for the new table (4 row sets x with/without a reopen in between). distinct_nontrivial = distinct states")
}

pub fn run_c01(tier: Tier) -> i32 {
    let mut rep = Report::new("C01", tier, "model_checking");
    e1_common(&mut rep);
    let big = 5000usize;
    let mut alphabet = vec![
        t1(),
        ins("T1", vec![vec![i(1), s("a")]]),
        Op::Flush,
        Op::Reopen,
        ins("T1", vec![vec![i(2), s("")]]),
        t2(),
        ins("T2", vec![vec![s("a"), i(2147483647), s("aa")], vec![s("b"), i(-2147483647), s("a")]]),
        ins("T1", vec![vec![i(32767), Val::Null], vec![i(-32767), s("\u{e9}t\u{e9}")]]),
        upd("T1", vec![("S", s("b"))], None),
        upd("T1", vec![("S", s(""))], Some(eq("K", i(1)))),
        del("T1", Some(eq("K", i(1)))),
        Op::WriteStream { name: "s1".into(), len: 3, seed: 1 },
        Op::WriteStream { name: "Big".into(), len: big, seed: 7 },
        Op::WriteStreamDrop { name: "s2".into(), len: 20, seed: 4 },
        Op::RemoveStream { name: "s1".into() },
        Op::Summary(SumOp::SetAuthor("Jane".into())),
        Op::Summary(SumOp::ClearTitle),
        Op::Summary(SumOp::SetLanguages(vec![1033, 1036])),
        Op::SetDbCodepage(1252),
        Op::DropTable { name: "T1".into() },
    ];
    if tier.thorough() {
        alphabet.extend(vec![
            Op::DropReopen,
            Op::SetDbCodepage(65001),
            Op::Summary(SumOp::SetCodepage(1252)),
            Op::Summary(SumOp::SetComments("caf\u{e9}".into())),
            Op::Summary(SumOp::SetCreationTicks(1_234_567_890_123)),
            Op::Summary(SumOp::SetArch("x64".into())),
            upd("T1", vec![("S", Val::Null)], Some(eq("K", i(2)))),
            del("T1", None),
            ins("T2", vec![vec![s("c"), Val::Null, s("x".repeat(70000).as_str())]]),
            Op::WriteStream { name: "s1".into(), len: 4097, seed: 9 },
            Op::RemoveStream { name: "Big".into() },
            Op::DropTable { name: "T2".into() },
        ]);
    }
    let cfg = Config {
        property: "C01",
        seed: None,
        ptype: 0,
        setup: vec![],
        alphabet,
        probes: vec![],
        stream_names: vec![],
        max_depth: if tier.thorough() { 7 } else { 6 },
        wall_cap: Duration::from_secs(if tier.thorough() { 1500 } else { 60 }),
        monitors: Monitors { roundtrip: true, ..Monitors::default() },
        merge_audits: if tier.thorough() { 200 } else { 0 },
        nodedup_depth: 0,
    };
    let ncfg = c01_config_product(tier, &mut rep);
    // tables named like the streams the string pool is kept in
    {
        let k = |name: &str| Op::CreateTable { name: name.into(), cols: vec![ColSpec::new("K", Ty::I16).key(), ColSpec::new("S", Ty::Str(8)).nullable()] };
        let mut hists: Vec<Vec<Op>> = Vec::new();
        for name in ["_StringPool", "_StringData"] {
            hists.push(vec![k(name)]);
            hists.push(vec![k(name), ins(name, vec![vec![i(5), s("five")]])]);
            hists.push(vec![t1(), ins("T1", vec![vec![i(1), s("a")]]), k(name), Op::Reopen, ins("T1", vec![vec![i(2), s("b")]])]);
            hists.push(vec![t1(), ins("T1", vec![vec![i(1), s("a")]]), k(name), Op::DropTable { name: name.into() }, Op::Reopen]);
            hists.push(vec![t1(), ins("T1", vec![vec![i(1), s("a")]]), Op::Reopen, k(name), Op::Flush, Op::DropTable { name: name.into() }]);
        }
        let lcfg = Config { alphabet: vec![], max_depth: 0, monitors: Monitors { model: true, roundtrip: true, ..Monitors::default() }, merge_audits: 0, nodedup_depth: 0, seed: None, setup: vec![], probes: vec![], stream_names: vec![], ..cfg };
        let fr = crate::e1::fresh(0);
        for h in &hists {
            for mut v in crate::e1::linear_history_checks(&lcfg, &fr, h) {
                v.signature = format!("internal-stream-name:{}", v.signature);
                rep.violations.push(v);
            }
        }
        rep.set("internal_stream_name_histories", hists.len());
    }
    // rows of the catalog tables changed through the query interface: what
    // the package shows before closing must be what it shows after reopening
    {
        let where_col = |t: &str, n: i32| Some(E::bin(Bin::And, eq("Table", s(t)), eq("Number", i(n))));
        let hists: Vec<Vec<Op>> = vec![
            vec![t1(), ins("T1", vec![vec![i(1), s("a")]]), Op::Update { table: "_Columns".into(), sets: vec![("Name".into(), s("Renamed"))], cond: where_col("T1", 2) }],
            vec![t1(), ins("T1", vec![vec![i(1), s("a")]]), Op::Delete { table: "_Tables".into(), cond: Some(eq("Name", s("T1"))) }],
            vec![t1(), ins("_Validation", vec![vec![s("T1"), s("Zz"), s("N"), Val::Null, Val::Null, Val::Null, Val::Null, Val::Null, Val::Null, Val::Null]])],
            vec![t1(), Op::Update { table: "_Validation".into(), sets: vec![("Nullable".into(), s("N"))], cond: Some(E::bin(Bin::And, eq("Table", s("T1")), eq("Column", s("S")))) }],
        ];
        for (hi, h) in hists.iter().enumerate() {
            use crate::ops::Harness;
            let doc = serde_json::json!({"kind":"c01-catalog-dml","history": h.iter().map(|o| o.show()).collect::<Vec<_>>()});
            let mut hs = Harness::create(0).expect("create");
            if h.iter().any(|op| !hs.apply(op).is_ok()) || hs.pkg.is_none() {
                continue; // the library may refuse queries on its catalog: nothing to compare then
            }
            let pre = match crate::snapshot::snapshot(hs.p()) {
                Ok(s) => s,
                Err(p) => {
                    rep.violation(format!("catalog-edited-through-queries:history-{}:panic-reading", hi + 1), p, doc);
                    continue;
                }
            };
            let desc = h.iter().map(|o| o.show()).collect::<Vec<_>>().join(" ; ");
            match hs.close_into_inner().and_then(Harness::open) {
                Err(e) => rep.violation(format!("catalog-edited-through-queries:history-{}:reopen-fails", hi + 1), format!("after {} (all Ok) the saved package does not reopen: {}", desc, e), doc),
                Ok(mut h2) => match crate::snapshot::snapshot(h2.p()) {
                    Err(p) => rep.violation(format!("catalog-edited-through-queries:history-{}:panic-reading", hi + 1), p, doc),
                    Ok(post) => {
                        if let Some(d) = pre.normalized().diff(&post.normalized()) {
                            rep.violation(format!("catalog-edited-through-queries:history-{}:differs-after-reopen", hi + 1), format!("after {} (all Ok): before closing vs after reopening: {}", desc, d), doc);
                        }
                    }
                },
            }
        }
        rep.set("catalog_dml_histories", hists.len());
    }
    rep.set("configuration_product_histories", ncfg);
    rep.set("configuration_product_closes", ncfg * 3);
    finish_e1(&cfg, rep, "all sequences over tables/rows/streams/summary/code-page operations up to the completed depth; every distinct state is closed in all three ways (flush with the bytes copied while the package is alive = crash right after a successful flush; into_inner; drop), reopened and compared with the observation before closing (\"\" == null), then saved and reopened again without change. Second part, the configuration product: 3 package types x 26 code pages (database and summary) x string classes from that page's repertoire (ASCII, empty, > 64 KiB, non-ASCII single-byte, multi-byte, > 64 KiB multi-byte, strings whose bytes begin like a byte-order mark) x integer boundaries +-32767 / +-2147483647, one history each, closed three ways, decoded independently and reopened. Third part: histories that create (fill, drop) tables named _StringPool / _StringData, the names the string pool's own streams are stored under. distinct_nontrivial = distinct states")
}

pub fn run_c08(tier: Tier) -> i32 {
    let mut rep = Report::new("C08", tier, "model_checking");
    e1_common(&mut rep);
    rep.assume("independent decoder: mc/msimc/src/dec.rs, written from the format description in DESIGN.md appendix A");
    let mut cfgs = dml_configs(tier, "C08", Monitors { wellformed: true, ..Monitors::default() }, vec![], false, 0);
    // strings referenced from two user tables and from the catalog at once,
    // drop of tables that still hold rows, slot reuse
    let sharing = vec![
        t1(),
        t2(),
        ins("T1", vec![vec![i(4), s("T2")], vec![i(6), s("K")]]),
        ins("T2", vec![vec![s("T1"), i(3), s("T2")]]),
        ins("T1", vec![vec![i(1), s("a")]]),
        ins("T2", vec![vec![s("a"), i(1), s("a")]]),
        Op::DropTable { name: "T2".into() },
        Op::DropTable { name: "T1".into() },
        ins("T1", vec![vec![i(7), s("fresh")]]),
        del("T1", Some(eq("K", i(4)))),
        upd("T1", vec![("S", s("T1"))], None),
        del("T2", None),
        Op::Reopen,
    ];
    let template = Config { alphabet: sharing, max_depth: if tier.thorough() { 11 } else { 6 }, seed: None, setup: vec![], probes: vec![], stream_names: vec![], ..cfgs[0].1 };
    cfgs.push(("catalog-and-cross-table-string-sharing".to_string(), template));
    // text in code pages other than UTF-8: encoded lengths differ from UTF-8 lengths
    let cp_ops = vec![
        t1(),
        ins("T1", vec![vec![i(1), s("\u{e9}t\u{e9}")]]),
        Op::SetDbCodepage(1252),
        ins("T1", vec![vec![i(2), s("caf\u{e9}")], vec![i(3), s("z")]]),
        Op::SetDbCodepage(932),
        ins("T1", vec![vec![i(4), s("\u{3042}\u{3042}")]]),
        Op::SetDbCodepage(65001),
        upd("T1", vec![("S", s("\u{e9}"))], Some(eq("K", i(3)))),
        del("T1", Some(eq("K", i(1)))),
        Op::Reopen,
        Op::Flush,
    ];
    let template = Config { alphabet: cp_ops, max_depth: if tier.thorough() { 12 } else { 6 }, seed: None, setup: vec![], probes: vec![], stream_names: vec![], ..cfgs[0].1 };
    cfgs.push(("database-code-pages".to_string(), template));
    finish_e1_multi(cfgs, rep, "the bytes saved after every prefix of every explored sequence, in all three close modes, are decoded by the independent decoder: whole rows of the dictated widths, offset-binary integers, live references, catalog = existing tables with columns 1..n, refcount(entry) = referring cells in all tables, unused entries empty, no live empty entry; decoded rows = model rows. distinct_nontrivial = distinct states")
}

// ------------------------------------------------------------------------- //
// C10 — summary information (E1 part)
// ------------------------------------------------------------------------- //

pub fn summary_alphabet(tier: Tier) -> Vec<Op> {
    use SumOp::*;
    let mut a: Vec<SumOp> = vec![
        SetAuthor("ab".into()),
        SetAuthor("\u{e9}\u{e9}".into()),
        ClearAuthor,
        SetTitle("T".into()),
        ClearTitle,
        SetCodepage(1252),
        SetCodepage(65001),
        SetComments("abc".into()),
        SetSubject("\u{416}".into()),
        SetArch("x64".into()),
        SetLanguages(vec![1033, 0x8409, 65535]),
        ClearArch,
        ClearLanguages,
        SetWordCount(2),
        SetUuid("0000002a-000c-0005-0c03-0938362b0809".into()),
        SetCreationTicks(-11_644_473_600_0000000 + 5),
        SetApp("app".into()),
        ClearComments,
    ];
    if tier.thorough() {
        a.extend(vec![
            SetCodepage(932),
            SetCodepage(1251),
            SetAuthor("\u{3042}".into()),
            SetLanguages(vec![1033, 0, 65535]),
            SetArch("Intel".into()),
            ClearSubject,
            ClearApp,
            ClearUuid,
            ClearWordCount,
            ClearCreationTime,
            SetWordCount(-1),
            SetCreationTicks(9_999_999_999_999),
        ]);
    }
    let mut ops: Vec<Op> = a.into_iter().map(Op::Summary).collect();
    ops.push(Op::Reopen);
    ops
}

pub fn run_c10_e1(tier: Tier, rep: &mut Report) -> crate::e1::Stats {
    let cfg = Config {
        property: "C10",
        seed: None,
        ptype: 0,
        setup: vec![],
        alphabet: summary_alphabet(tier),
        probes: vec![],
        stream_names: vec![],
        max_depth: std::env::var("MSIMC_DEPTH").ok().and_then(|d| d.parse().ok()).unwrap_or(if tier.thorough() { 7 } else { 5 }),
        wall_cap: Duration::from_secs(if tier.thorough() { 600 } else { 45 }),
        monitors: Monitors { model: true, roundtrip: true, summary_stream: true, ..Monitors::default() },
        merge_audits: 0,
        nodedup_depth: 0,
    };
    let st = explore(&cfg, rep);
    fill_report(&cfg, &st, rep);
    // second exploration: summary edits interleaved with flushes of the same
    // package object and with table / database-code-page changes, in either
    // order inside one save window
    {
        use SumOp::*;
        let mut alphabet: Vec<Op> = vec![
            Op::Summary(SetAuthor("Zo\u{eb}".into())),
            Op::Summary(SetTitle("T".into())),
            Op::Summary(ClearAuthor),
            Op::Summary(SetCodepage(1252)),
            Op::Summary(SetCodepage(65001)),
            Op::Summary(SetCreationTicks(1_234_567_890_123)),
            Op::Flush,
            Op::Reopen,
            t1(),
            ins("T1", vec![vec![i(1), s("a")]]),
            Op::SetDbCodepage(1252),
        ];
        if tier.thorough() {
            alphabet.push(Op::Summary(SetComments("c\u{e9}".into())));
            alphabet.push(Op::Summary(SetArch("x64".into())));
            alphabet.push(del("T1", None));
            alphabet.push(Op::DropTable { name: "T1".into() });
        }
        let cfg2 = Config { alphabet, max_depth: if tier.thorough() { 6 } else { 5 }, wall_cap: Duration::from_secs(if tier.thorough() { 600 } else { 45 }), ..cfg };
        let st2 = explore(&cfg2, rep);
        rep.set("interleaved_states", st2.states);
        rep.set("interleaved_transitions", st2.transitions);
        rep.set("interleaved_depth", st2.max_depth_completed);
        rep.add("states", st2.states as i64);
        rep.add("transitions", st2.transitions as i64);
        rep.add("traces_validated_against_impl", st2.transitions as i64);
    }
    st
}

// ------------------------------------------------------------------------- //
// C11 — binary streams
// ------------------------------------------------------------------------- //

pub fn stream_names(tier: Tier) -> Vec<String> {
    let mut v: Vec<String> = vec![
        "a".into(),
        "A".into(),
        "00".into(),
        "\u{3800}".into(),
        "x".into(),
        "1".into(),
        "\u{4801}".into(),
        "/x".into(),
        "\u{e9}".into(),
        "\u{c9}".into(),
        "T".into(),
        "\u{4840}T".into(),
        "\u{4840}_StringPool".into(),
        "\u{4840}_Tables".into(),
        ":".into(),
        "\u{5}SummaryInformation".into(),
    ];
    if tier.thorough() {
        v.extend(
            [
                "\u{483f}",
                "x/",
                "y/../x",
                "\u{5}DigitalSignature",
                "!",
                "\\",
                ".",
                "",
                "_StringPool",
                "\u{4840}_StringPool",
                "a b",
                "\u{1F600}",
            ]
            .iter()
            .map(|s| s.to_string()),
        );
        // 31 / 32 encoded units from packable pairs (62 / 64 chars), from
        // unpackable characters, from astral characters (2 units each)
        v.push("ab".repeat(31));
        v.push("ab".repeat(32));
        v.push("a".repeat(61));
        v.push("-".repeat(31));
        v.push("-".repeat(32));
        v.push("\u{1F600}".repeat(15));
        v.push("\u{1F600}".repeat(16));
    }
    v
}

pub fn run_c11(tier: Tier) -> i32 {
    let mut rep = Report::new("C11", tier, "model_checking");
    e1_common(&mut rep);
    rep.assume("stream-name reference (ops.rs stream_name_class): empty and over-long names must be refused; names with container-reserved characters, the table marker in front, characters inside the packing ranges or control characters may be refused or accepted, and when accepted must behave like any other name; names that differ by case only may share one entry");
    let names = stream_names(tier);
    let contents: Vec<(usize, u8)> = if tier.thorough() { vec![(3, 1), (0, 0), (4097, 5)] } else { vec![(3, 1), (4097, 5)] };
    let mut alphabet: Vec<Op> = Vec::new();
    for (len, seed) in &contents {
        for (i, n) in names.iter().enumerate() {
            alphabet.push(Op::WriteStream { name: n.clone(), len: *len, seed: seed.wrapping_add(i as u8) });
        }
    }
    for n in &names {
        alphabet.push(Op::RemoveStream { name: n.clone() });
    }
    alphabet.push(Op::Reopen);
    alphabet.push(Op::CreateTable { name: "T".into(), cols: vec![ColSpec::new("K", Ty::I16).key(), ColSpec::new("S", Ty::Str(8)).nullable()] });
    alphabet.push(ins("T", vec![vec![i(1), s("x")]]));
    alphabet.push(Op::DropTable { name: "T".into() });
    alphabet.push(Op::RemoveSignature);
    alphabet.push(Op::WriteStreamDrop { name: "x".into(), len: 30, seed: 2 });
    alphabet.push(Op::Flush);
    if tier.thorough() {
        alphabet.push(Op::WriteStream { name: "x".into(), len: 9000, seed: 3 });
        alphabet.push(Op::WriteStream { name: "a".into(), len: 4096, seed: 4 });
        alphabet.push(Op::WriteStream { name: "a".into(), len: 4095, seed: 6 });
        alphabet.push(Op::WriteStream { name: "a".into(), len: 1, seed: 8 });
        alphabet.push(Op::DropReopen);
    }
    let cfg = Config {
        property: "C11",
        seed: None,
        ptype: 0,
        setup: vec![],
        alphabet,
        probes: vec![],
        stream_names: names,
        max_depth: 4,
        wall_cap: Duration::from_secs(if tier.thorough() { 900 } else { 60 }),
        monitors: Monitors { model: true, roundtrip: true, stream_listing: true, stream_class_compare: true, ..Monitors::default() },
        merge_audits: 0,
        nodedup_depth: 0,
    };
    let mut cfg2 = cfg;
    if let Ok(d) = std::env::var("MSIMC_DEPTH") {
        cfg2.max_depth = d.parse().expect("MSIMC_DEPTH");
    }
    let st = explore(&cfg2, &mut rep);
    fill_report(&cfg2, &st, &mut rep);
    // second exploration: a package that carries both signature streams
    let seed = signed_seed();
    let cfg3 = Config {
        property: "C11",
        seed: Some(seed),
        ptype: 0,
        setup: vec![],
        alphabet: vec![
            Op::RemoveSignature,
            Op::WriteStream { name: "x".into(), len: 3, seed: 1 },
            Op::RemoveStream { name: "x".into() },
            Op::WriteStream { name: "\u{5}DigitalSignature".into(), len: 3, seed: 2 },
            Op::RemoveStream { name: "\u{5}DigitalSignature".into() },
            Op::RemoveStream { name: "\u{5}MsiDigitalSignatureEx".into() },
            Op::Reopen,
            ins("T", vec![vec![i(2), s("y")]]),
            Op::Summary(SumOp::SetAuthor("me".into())),
        ],
        probes: vec![],
        stream_names: vec!["x".into(), "\u{5}DigitalSignature".into(), "\u{5}MsiDigitalSignatureEx".into(), "\u{5}SummaryInformation".into(), "keep".into()],
        max_depth: if tier.thorough() { 5 } else { 4 },
        wall_cap: Duration::from_secs(120),
        monitors: Monitors { model: true, roundtrip: true, stream_class_compare: true, ..Monitors::default() },
        merge_audits: 0,
        nodedup_depth: 0,
    };
    let st3 = explore(&cfg3, &mut rep);
    rep.set("signed_seed_states", st3.states);
    rep.set("signed_seed_transitions", st3.transitions);
    rep.set("signed_seed_depth", st3.max_depth_completed);
    rep.add("states", st3.states as i64);
    rep.add("transitions", (st3.transitions + st3.probes) as i64);
    rep.add("traces_validated_against_impl", (st3.transitions + st3.probes) as i64);
    // third exploration: streams named after tables and their rows (the
    // convention of the Binary and Icon tables), on a package whose tables
    // have columns of the Binary category: table operations must not touch them
    let bin_table = |name: &str, two_keys: bool| {
        let mut cols = vec![ColSpec::new("Name", Ty::Str(72)).key().category("Identifier")];
        if two_keys {
            cols.push(ColSpec::new("Index", Ty::I16).key());
        }
        cols.push(ColSpec::new("Data", Ty::Str(0)).nullable().category("Binary"));
        Op::CreateTable { name: name.into(), cols }
    };
    let row_names: Vec<String> = vec!["Binary.Logo".into(), "Binary.Other".into(), "Binary".into(), "Pair.Left.7".into(), "Logo".into()];
    let mut alphabet4: Vec<Op> = Vec::new();
    for (k, n) in row_names.iter().enumerate() {
        alphabet4.push(Op::WriteStream { name: n.clone(), len: 5, seed: 20 + k as u8 });
    }
    alphabet4.push(Op::RemoveStream { name: "Binary.Logo".into() });
    alphabet4.push(Op::DropTable { name: "Binary".into() });
    alphabet4.push(Op::DropTable { name: "Pair".into() });
    alphabet4.push(Op::Delete { table: "Binary".into(), cond: None });
    alphabet4.push(Op::Update { table: "Binary".into(), sets: vec![("Data".into(), s("Other"))], cond: None });
    alphabet4.push(ins("Binary", vec![vec![s("Other"), s("Other")]]));
    alphabet4.push(bin_table("Binary", false));
    alphabet4.push(Op::Reopen);
    let cfg4 = Config {
        property: "C11",
        seed: None,
        ptype: 0,
        setup: vec![bin_table("Binary", false), bin_table("Pair", true), ins("Binary", vec![vec![s("Logo"), s("Logo")]]), ins("Pair", vec![vec![s("Left"), i(7), Val::Null]])],
        alphabet: alphabet4,
        probes: vec![],
        stream_names: row_names,
        max_depth: if tier.thorough() { 4 } else { 3 },
        wall_cap: Duration::from_secs(120),
        monitors: Monitors { model: true, roundtrip: true, stream_listing: true, stream_class_compare: true, ..Monitors::default() },
        merge_audits: 0,
        nodedup_depth: 0,
    };
    let st4 = explore(&cfg4, &mut rep);
    rep.set("row_streams_states", st4.states);
    rep.set("row_streams_transitions", st4.transitions);
    rep.set("row_streams_depth", st4.max_depth_completed);
    rep.add("states", st4.states as i64);
    rep.add("transitions", (st4.transitions + st4.probes) as i64);
    rep.add("traces_validated_against_impl", (st4.transitions + st4.probes) as i64);
    rep.set("rule", "third exploration: streams named <Table>.<key> next to tables with Binary-category columns and rows of those keys, under drop/delete/update/insert/create/reopen; all sequences of write/overwrite/remove over the colliding name set x contents on both sides of the small-stream cutoff, interleaved with table operations and reopen, up to the completed depth; after every transition listing + contents are compared with the model (names as given; names differing by case only may share an entry); every state: has_stream/read_stream of every name in the set, raw container entry list vs listing, save + reopen; second exploration from a seed carrying both signature streams (remove_digital_signature must change nothing else; signature streams unreachable through the stream interface)");
    rep.finish()
}

/// A valid package (table T with a row, user stream "keep") to which both
/// signature streams are added directly in the container.
pub fn signed_seed() -> Vec<u8> {
    use std::io::Write;
    let mut h = crate::ops::Harness::create(0).expect("create");
    let ops = [
        Op::CreateTable { name: "T".into(), cols: vec![ColSpec::new("K", Ty::I16).key(), ColSpec::new("S", Ty::Str(8)).nullable()] },
        ins("T", vec![vec![i(1), s("x")]]),
        Op::WriteStream { name: "keep".into(), len: 10, seed: 9 },
    ];
    for op in &ops {
        assert!(h.apply(op).is_ok());
    }
    let bytes = h.close_into_inner().expect("close");
    let mut comp = cfb::CompoundFile::open(std::io::Cursor::new(bytes)).expect("cfb open");
    comp.create_stream("\u{5}DigitalSignature").expect("sig").write_all(b"signature-bytes").expect("w");
    comp.create_stream("\u{5}MsiDigitalSignatureEx").expect("sigex").write_all(b"signature-ex").expect("w");
    comp.flush().expect("flush");
    comp.into_inner().into_inner()
}

// ------------------------------------------------------------------------- //
// C01 — configuration product (E2): package types x code pages x string
// classes x integer boundaries, each a one-table history closed three ways.
// ------------------------------------------------------------------------- //

fn c01_strings(cp: i32) -> Vec<(&'static str, String)> {
    let rt = |s: &str| crate::c14::ref_decode(cp, &crate::c14::ref_encode(cp, s)) == s;
    let mut out: Vec<(&'static str, String)> = vec![
        ("ascii", "plain".into()),
        ("empty", "".into()),
        ("over-64KiB", "L".repeat(70000)),
        // both sides of the 16-bit length boundary of a pool entry
        ("65534-bytes", "m".repeat(65534)),
        ("65535-bytes", "n".repeat(65535)),
        ("65536-bytes", "o".repeat(65536)),
        ("131072-bytes", "p".repeat(131072)),
    ];
    let cands = ['\u{e9}', '\u{416}', '\u{3a9}', '\u{142}', '\u{5d0}', '\u{627}', '\u{e01}', '\u{20ac}', '\u{3042}', '\u{4e2d}', '\u{d55c}', '\u{ff76}'];
    let mut one = false;
    let mut two = false;
    for c in cands {
        let s = c.to_string();
        if !rt(&s) {
            continue;
        }
        let n = crate::c14::ref_encode(cp, &s).len();
        if n == 1 && !one {
            one = true;
            out.push(("non-ascii-1-byte", format!("a{}b{}", c, c)));
        } else if n >= 2 && !two {
            two = true;
            out.push(("multi-byte", format!("{}x{}{}", c, c, c)));
            out.push(("over-64KiB-multi-byte", format!("{}", s.repeat(33000))));
        }
    }
    // strings whose encoding begins with bytes that look like a byte-order mark
    for (label, s) in [("bom-char-prefix", "\u{feff}abc"), ("ff-fe-prefix", "\u{ff}\u{fe}ab"), ("fe-ff-prefix", "\u{fe}\u{ff}ab"), ("ef-bb-bf-prefix", "\u{ef}\u{bb}\u{bf}ab")] {
        if rt(s) {
            out.push((label, s.to_string()));
        }
    }
    out
}

pub fn c01_config_product(tier: Tier, rep: &mut Report) -> u64 {
    use rayon::prelude::*;
    let pages: Vec<i32> = crate::c14::PAGES.iter().map(|p| p.0).collect();
    let mut cases: Vec<(u8, i32, &'static str, String)> = Vec::new();
    for ptype in 0..3u8 {
        for cp in &pages {
            for (label, s) in c01_strings(*cp) {
                if (label.starts_with("over-64KiB") || label.ends_with("-bytes")) && !(tier.thorough() || (ptype == 0 && [65001, 1252, 932].contains(cp))) {
                    continue;
                }
                cases.push((ptype, *cp, label, s));
            }
        }
    }
    let results: Vec<Vec<crate::report::Violation>> = cases
        .par_iter()
        .map(|(ptype, cp, _label, s)| {
            let cfg = Config {
                property: "C01",
                seed: None,
                ptype: *ptype,
                setup: vec![],
                alphabet: vec![],
                probes: vec![],
                stream_names: vec![],
                max_depth: 0,
                wall_cap: Duration::from_secs(60),
                monitors: Monitors { model: true, roundtrip: true, wellformed: true, invariants: true, ..Monitors::default() },
                merge_audits: 0,
                nodedup_depth: 0,
            };
            let fr = crate::e1::fresh(*ptype);
            let ops = vec![
                Op::SetDbCodepage(*cp),
                Op::Summary(SumOp::SetCodepage(*cp)),
                Op::CreateTable {
                    name: "X".into(),
                    cols: vec![ColSpec::new("K", Ty::I16).key(), ColSpec::new("I", Ty::I32).nullable(), ColSpec::new("S", Ty::Str(0)).nullable(), ColSpec::new("T", Ty::Str(0)).nullable().localizable()],
                },
                ins(
                    "X",
                    vec![
                        vec![i(-32767), i(-2147483647), Val::Str(s.clone()), Val::Str(s.clone())],
                        vec![i(-1), i(1), Val::Null, Val::Str(s.clone())],
                        vec![i(1), i(-1), Val::Str(s.clone()), Val::Null],
                        vec![i(32767), i(2147483647), Val::s("other"), Val::s("X")],
                    ],
                ),
                Op::Summary(SumOp::SetAuthor(if s.len() > 1000 { "long".into() } else { s.clone() })),
                Op::Summary(SumOp::SetComments(if s.len() > 1000 { s[..s.char_indices().nth(300).map(|x| x.0).unwrap_or(s.len())].to_string() } else { format!("{}{}", s, s) })),
                Op::WriteStream { name: "S".into(), len: 10, seed: 1 },
            ];
            crate::e1::linear_history_checks(&cfg, &fr, &ops)
        })
        .collect();
    let n = cases.len() as u64;
    for (c, vs) in cases.iter().zip(results.into_iter()) {
        for mut v in vs {
            v.signature = format!("config:{}:{}", c.2, v.signature);
            v.detail = format!("[package type {} code page {} string class {}] {}", c.0, c.1, c.2, v.detail.chars().take(1500).collect::<String>());
            rep.violations.push(v);
        }
    }
    n
}

//! Independent encoder of the MSI database format (DESIGN.md appendix A):
//! emits a complete compound file from an abstract database, with the knobs
//! the C02 quantifier names.  Shares only the name mangler and the reference
//! text codec with the decoder; nothing with the library.

use crate::c14::ref_encode;
use crate::dec::mangle;
use crate::snapshot::{Snapshot, SummarySnap, TableSnap};
use crate::spec::{ColSpec, Ty};
use crate::val::Val;
use std::collections::BTreeMap;
use std::io::{Cursor, Write};

#[derive(Clone, Copy, Debug, PartialEq, Eq)]
pub enum PoolStyle {
    Dense,
    /// unused ids (0,0) interleaved
    Holes,
    /// some strings stored twice, references split between the copies
    Duplicates,
    /// reference counts larger than the number of referring cells
    OverCounted,
}

#[derive(Clone, Copy, Debug, PartialEq, Eq)]
pub enum RowOrder {
    Ascending,
    Descending,
    Interleaved,
}

#[derive(Clone, Copy, Debug, PartialEq, Eq)]
pub enum PropOrder {
    Ascending,
    Descending,
    CodepageLast,
}

#[derive(Clone, Debug)]
pub struct EncCol {
    pub spec: ColSpec,
    /// store a 2-byte integer with width byte 1 (seen in the wild)
    pub width1_quirk: bool,
}

#[derive(Clone, Debug)]
pub struct EncTable {
    pub name: String,
    pub cols: Vec<EncCol>,
    /// in ascending key order; `row_order` permutes them in the file
    pub rows: Vec<Vec<Val>>,
}

#[derive(Clone, Debug)]
pub struct EncSummary {
    pub codepage: Option<u16>,
    pub title: Option<String>,
    pub subject: Option<String>,
    pub author: Option<String>,
    pub comments: Option<String>,
    pub template: Option<String>,
    pub uuid: Option<String>,
    pub creation_ticks_1601: Option<u64>,
    pub word_count: Option<i32>,
    pub app: Option<String>,
    pub order: PropOrder,
    pub extra_padding: u32,
    pub section_offset: u32,
    pub format_version: u16,
    /// an additional one-byte integer property (type 16, needs format
    /// version 1) under an id the library has no getter for
    pub extra_i1: Option<(u32, i8)>,
    /// write an empty string as a value of size 0 with no characters at all
    /// (MS-OLEPS 2.5 allows it) instead of size 1 with only the terminator
    pub empty_as_size_zero: bool,
}

#[derive(Clone, Debug)]
pub struct EncDb {
    pub ptype: u8,
    /// 0 = default
    pub codepage_id: u32,
    pub long_refs: bool,
    pub pool_style: PoolStyle,
    pub with_validation: bool,
    pub row_order: RowOrder,
    pub tables: Vec<EncTable>,
    pub streams: Vec<(String, Vec<u8>)>,
    pub summary: EncSummary,
    /// extra pool entries: strings nobody refers to with a positive count
    /// (over-counting), appended at the end
    pub extra_pool_strings: Vec<String>,
    /// unused pool entries (reference count 0) that still carry text: the
    /// first is placed in front of all other entries, the rest at the end
    pub ghost_strings: Vec<String>,
}

impl EncDb {
    pub fn text_cp(&self) -> i32 {
        if self.codepage_id == 0 {
            65001
        } else {
            self.codepage_id as i32
        }
    }
}

pub fn clsid_for(ptype: u8) -> &'static str {
    match ptype {
        0 => "000C1084-0000-0000-C000-000000000046",
        1 => "000C1086-0000-0000-C000-000000000046",
        _ => "000C1082-0000-0000-C000-000000000046",
    }
}

/// The schema of `_Validation` as MSI databases carry it.
pub fn validation_schema() -> Vec<ColSpec> {
    let cats: Vec<&str> = crate::spec::ALL_CATEGORIES.to_vec();
    vec![
        ColSpec::new("Table", Ty::Str(32)).key().category("Identifier"),
        ColSpec::new("Column", Ty::Str(32)).key().category("Identifier"),
        ColSpec::new("Nullable", Ty::Str(4)).enums(&["Y", "N"]),
        ColSpec::new("MinValue", Ty::I32).nullable().range(-0x7fff_ffff, 0x7fff_ffff),
        ColSpec::new("MaxValue", Ty::I32).nullable().range(-0x7fff_ffff, 0x7fff_ffff),
        ColSpec::new("KeyTable", Ty::Str(255)).nullable().category("Identifier"),
        ColSpec::new("KeyColumn", Ty::I16).nullable().range(1, 32),
        ColSpec::new("Category", Ty::Str(32)).nullable().enums(&cats),
        ColSpec::new("Set", Ty::Str(255)).nullable().category("Text"),
        ColSpec::new("Description", Ty::Str(255)).nullable().category("Text"),
    ]
}

struct Pool {
    /// (text, refcount); None = unused id
    entries: Vec<Option<(String, u32)>>,
    index: BTreeMap<String, Vec<usize>>,
    style: PoolStyle,
    counter: usize,
    /// indices of unused entries that carry text
    ghosts: std::collections::BTreeSet<usize>,
}

impl Pool {
    fn new(style: PoolStyle) -> Pool {
        Pool { entries: Vec::new(), index: BTreeMap::new(), style, counter: 0, ghosts: Default::default() }
    }
    /// Returns the 1-based id for a reference to `s`.
    fn intern(&mut self, s: &str) -> u32 {
        self.counter += 1;
        let ids = self.index.entry(s.to_string()).or_default();
        let make_new = match self.style {
            PoolStyle::Duplicates => ids.is_empty() || (ids.len() == 1 && self.counter % 3 == 0),
            _ => ids.is_empty(),
        };
        if make_new {
            if self.style == PoolStyle::Holes && self.entries.len() % 3 == 1 {
                self.entries.push(None);
            }
            self.entries.push(Some((s.to_string(), 0)));
            ids.push(self.entries.len() - 1);
        }
        // pick the copy: alternate between duplicates
        let pick = ids[self.counter % ids.len()];
        let mut pick = pick;
        // never exceed 65535 references per entry
        if self.entries[pick].as_ref().unwrap().1 >= 65535 {
            self.entries.push(Some((s.to_string(), 0)));
            ids.push(self.entries.len() - 1);
            pick = self.entries.len() - 1;
        }
        self.entries[pick].as_mut().unwrap().1 += 1;
        (pick + 1) as u32
    }
}

fn cell_kind(c: &EncCol) -> (bool, usize) {
    // (is_string, int width)
    match c.spec.ty {
        Ty::Str(_) => (true, 0),
        Ty::I16 => (false, 2),
        Ty::I32 => (false, 4),
    }
}

fn type_word(c: &EncCol) -> i32 {
    let mut w = c.spec.type_word();
    if c.width1_quirk && c.spec.ty == Ty::I16 {
        w = (w & !0xff) | 1;
    }
    w
}

fn permute<T: Clone>(rows: &[T], order: RowOrder) -> Vec<T> {
    match order {
        RowOrder::Ascending => rows.to_vec(),
        RowOrder::Descending => rows.iter().rev().cloned().collect(),
        RowOrder::Interleaved => {
            let mut out = Vec::new();
            let (mut i, mut j) = (0usize, rows.len());
            while i < j {
                out.push(rows[i].clone());
                i += 1;
                if i < j {
                    j -= 1;
                    out.push(rows[j].clone());
                }
            }
            out
        }
    }
}

fn write_table(kinds: &[(bool, usize)], rows: &[Vec<Val>], pool: &mut Pool, long_refs: bool) -> Vec<u8> {
    // resolve references first (row-major so that the pool order is natural)
    let mut cells: Vec<Vec<u32>> = Vec::new();
    for r in rows {
        let mut row = Vec::new();
        for (v, (is_str, w)) in r.iter().zip(kinds.iter()) {
            row.push(match v {
                Val::Null => 0u32,
                Val::Int(n) => {
                    if *w == 2 {
                        ((*n as i16 as u16) ^ 0x8000) as u32
                    } else {
                        (*n as u32) ^ 0x8000_0000
                    }
                }
                Val::Str(s) => {
                    assert!(*is_str);
                    if s.is_empty() {
                        0
                    } else {
                        pool.intern(s)
                    }
                }
            });
        }
        cells.push(row);
    }
    let mut out = Vec::new();
    for (ci, (is_str, w)) in kinds.iter().enumerate() {
        for row in &cells {
            let v = row[ci];
            if *is_str {
                out.extend_from_slice(&(v as u16).to_le_bytes());
                if long_refs {
                    out.push((v >> 16) as u8);
                }
            } else if *w == 2 {
                out.extend_from_slice(&(v as u16).to_le_bytes());
            } else {
                out.extend_from_slice(&v.to_le_bytes());
            }
        }
    }
    out
}

fn validation_row(table: &str, c: &ColSpec) -> Vec<Val> {
    vec![
        Val::s(table),
        Val::Str(c.name.clone()),
        Val::s(if c.nullable { "Y" } else { "N" }),
        c.range.map(|r| Val::Int(r.0)).unwrap_or(Val::Null),
        c.range.map(|r| Val::Int(r.1)).unwrap_or(Val::Null),
        c.fk.as_ref().map(|f| Val::Str(f.0.clone())).unwrap_or(Val::Null),
        c.fk.as_ref().map(|f| Val::Int(f.1)).unwrap_or(Val::Null),
        c.category.as_ref().map(|x| Val::Str(x.clone())).unwrap_or(Val::Null),
        if c.enums.is_empty() { Val::Null } else { Val::Str(c.enums.join(";")) },
        Val::Null,
    ]
}

pub fn encode_summary(s: &EncSummary, cp: i32) -> Vec<u8> {
    // (id, typed value bytes incl. type tag, padded to 4)
    let mut props: Vec<(u32, Vec<u8>)> = Vec::new();
    let lpstr = |t: &str| -> Vec<u8> {
        let b = ref_encode(cp, t);
        let mut v = Vec::new();
        v.extend_from_slice(&30u32.to_le_bytes());
        if b.is_empty() && s.empty_as_size_zero {
            v.extend_from_slice(&0u32.to_le_bytes());
            return v;
        }
        v.extend_from_slice(&((b.len() + 1) as u32).to_le_bytes());
        v.extend_from_slice(&b);
        v.push(0);
        while v.len() % 4 != 0 {
            v.push(0);
        }
        v
    };
    if let Some(c) = s.codepage {
        let mut v = Vec::new();
        v.extend_from_slice(&2u32.to_le_bytes());
        v.extend_from_slice(&c.to_le_bytes());
        v.extend_from_slice(&[0, 0]);
        props.push((1, v));
    }
    for (id, val) in [(2u32, &s.title), (3, &s.subject), (4, &s.author), (6, &s.comments), (7, &s.template), (9, &s.uuid), (18, &s.app)] {
        if let Some(t) = val {
            props.push((id, lpstr(t)));
        }
    }
    if let Some(t) = s.creation_ticks_1601 {
        let mut v = Vec::new();
        v.extend_from_slice(&64u32.to_le_bytes());
        v.extend_from_slice(&t.to_le_bytes());
        props.push((12, v));
    }
    if let Some(n) = s.word_count {
        let mut v = Vec::new();
        v.extend_from_slice(&3u32.to_le_bytes());
        v.extend_from_slice(&n.to_le_bytes());
        props.push((15, v));
    }
    if let Some((id, v)) = s.extra_i1 {
        let mut b = Vec::new();
        b.extend_from_slice(&16u32.to_le_bytes());
        b.push(v as u8);
        b.extend_from_slice(&[0, 0, 0]);
        props.push((id, b));
    }
    props.sort_by_key(|p| p.0);
    match s.order {
        PropOrder::Ascending => {}
        PropOrder::Descending => props.reverse(),
        PropOrder::CodepageLast => {
            if let Some(i) = props.iter().position(|p| p.0 == 1) {
                let p = props.remove(i);
                props.push(p);
            }
        }
    }
    let n = props.len() as u32;
    let mut offsets = Vec::new();
    let mut off = 8 + 8 * n;
    for (_, v) in &props {
        off += s.extra_padding;
        offsets.push(off);
        off += v.len() as u32;
    }
    let section_size = off;
    let mut out = Vec::new();
    out.extend_from_slice(&0xfffeu16.to_le_bytes());
    out.extend_from_slice(&s.format_version.to_le_bytes());
    out.extend_from_slice(&10u16.to_le_bytes());
    out.extend_from_slice(&2u16.to_le_bytes());
    out.extend_from_slice(&[0u8; 16]);
    out.extend_from_slice(&1u32.to_le_bytes());
    out.extend_from_slice(&crate::dec::FMTID);
    out.extend_from_slice(&s.section_offset.to_le_bytes());
    while (out.len() as u32) < s.section_offset {
        out.push(0);
    }
    out.extend_from_slice(&section_size.to_le_bytes());
    out.extend_from_slice(&n.to_le_bytes());
    // the id/offset directory lists the properties in the same order
    for ((id, _), o) in props.iter().zip(offsets.iter()) {
        out.extend_from_slice(&id.to_le_bytes());
        out.extend_from_slice(&o.to_le_bytes());
    }
    for (_, v) in &props {
        for _ in 0..s.extra_padding {
            out.push(0);
        }
        out.extend_from_slice(v);
    }
    out
}

pub fn encode(db: &EncDb) -> Vec<u8> {
    let cp = db.text_cp();
    let mut pool = Pool::new(db.pool_style);
    if let Some(g) = db.ghost_strings.first() {
        pool.entries.push(Some((g.clone(), 0)));
        pool.ghosts.insert(0);
    }
    let mut streams: Vec<(String, Vec<u8>)> = Vec::new();
    // catalog content
    let vschema = validation_schema();
    let mut tables_rows: Vec<Vec<Val>> = Vec::new();
    let mut columns_rows: Vec<Vec<Val>> = Vec::new();
    let mut validation_rows: Vec<Vec<Val>> = Vec::new();
    let mut all: Vec<(&str, Vec<(ColSpec, i32)>)> = Vec::new();
    for t in &db.tables {
        all.push((&t.name, t.cols.iter().map(|c| (c.spec.clone(), type_word(c))).collect()));
    }
    if db.with_validation {
        all.push(("_Validation", vschema.iter().map(|c| (c.clone(), c.type_word())).collect()));
    }
    all.sort_by(|a, b| a.0.cmp(b.0));
    for (name, cols) in &all {
        tables_rows.push(vec![Val::s(name)]);
        for (i, (c, tw)) in cols.iter().enumerate() {
            columns_rows.push(vec![Val::s(name), Val::Int(i as i32 + 1), Val::Str(c.name.clone()), Val::Int(*tw)]);
            if db.with_validation {
                validation_rows.push(validation_row(name, c));
            }
        }
    }
    validation_rows.sort_by(|a, b| (&a[0], &a[1]).cmp(&(&b[0], &b[1])));
    let s2 = (true, 0usize);
    streams.push((mangle("_Tables", true), write_table(&[s2], &permute(&tables_rows, db.row_order), &mut pool, db.long_refs)));
    streams.push((mangle("_Columns", true), write_table(&[s2, (false, 2), s2, (false, 2)], &permute(&columns_rows, db.row_order), &mut pool, db.long_refs)));
    if db.with_validation {
        let kinds = [s2, s2, s2, (false, 4), (false, 4), s2, (false, 2), s2, s2, s2];
        streams.push((mangle("_Validation", true), write_table(&kinds, &permute(&validation_rows, db.row_order), &mut pool, db.long_refs)));
    }
    for t in &db.tables {
        if t.rows.is_empty() {
            continue; // a missing stream = empty table
        }
        let kinds: Vec<(bool, usize)> = t.cols.iter().map(cell_kind).collect();
        streams.push((mangle(&t.name, true), write_table(&kinds, &permute(&t.rows, db.row_order), &mut pool, db.long_refs)));
    }
    for s in &db.extra_pool_strings {
        pool.entries.push(Some((s.clone(), 0)));
    }
    for g in db.ghost_strings.iter().skip(1) {
        pool.entries.push(Some((g.clone(), 0)));
        pool.ghosts.insert(pool.entries.len() - 1);
    }
    // pool streams
    let mut pool_bytes = Vec::new();
    let header = (db.codepage_id & 0xffff) | if db.long_refs { 0x8000_0000 } else { 0 };
    pool_bytes.extend_from_slice(&header.to_le_bytes());
    let mut data_bytes = Vec::new();
    for (ei, e) in pool.entries.iter().enumerate() {
        match e {
            None => pool_bytes.extend_from_slice(&[0, 0, 0, 0]),
            Some((text, rc)) => {
                let b = ref_encode(cp, text);
                let rc = match db.pool_style {
                    PoolStyle::OverCounted => (*rc + 5).min(65535),
                    _ => *rc,
                } as u16;
                // an entry nobody refers to must not be written with count 0
                // and text (that is what "unused" means): give it count 1
                // (unless it is a deliberate ghost entry)
                let rc = if pool.ghosts.contains(&ei) { 0 } else if rc == 0 { 1 } else { rc };
                if b.len() > 0xffff {
                    pool_bytes.extend_from_slice(&0u16.to_le_bytes());
                    pool_bytes.extend_from_slice(&((b.len() >> 16) as u16).to_le_bytes());
                }
                pool_bytes.extend_from_slice(&((b.len() & 0xffff) as u16).to_le_bytes());
                pool_bytes.extend_from_slice(&rc.to_le_bytes());
                data_bytes.extend_from_slice(&b);
            }
        }
    }
    streams.push((mangle("_StringPool", true), pool_bytes));
    streams.push((mangle("_StringData", true), data_bytes));
    for (n, c) in &db.streams {
        streams.push((mangle(n, false), c.clone()));
    }
    let scp = match db.summary.codepage {
        None => 65001,
        Some(65001) => 65001,
        Some(c) => c as i32,
    };
    streams.push(("\u{5}SummaryInformation".to_string(), encode_summary(&db.summary, scp)));
    // container
    let mut comp = cfb::CompoundFile::create(Cursor::new(Vec::new())).expect("cfb create");
    comp.set_storage_clsid("/", uuid::Uuid::parse_str(clsid_for(db.ptype)).unwrap()).expect("clsid");
    for (name, content) in streams {
        let mut s = comp.create_stream(format!("/{}", name)).unwrap_or_else(|e| panic!("create stream {:?}: {}", name, e));
        s.write_all(&content).expect("write stream");
        s.flush().expect("flush stream");
    }
    comp.flush().expect("flush");
    comp.into_inner().into_inner()
}

/// What the API must report for `db` (rows in file order).
pub fn expected_snapshot(db: &EncDb) -> Snapshot {
    let mut tables: Vec<TableSnap> = Vec::new();
    let vschema = validation_schema();
    let norm_cols = |cols: &[ColSpec]| -> Vec<ColSpec> {
        cols.iter()
            .map(|c| {
                let mut c = c.without_fk();
                if !db.with_validation {
                    // everything that lives in _Validation is unknown
                    c.range = None;
                    c.category = None;
                    c.enums = vec![];
                }
                c
            })
            .collect()
    };
    let mut tables_rows: Vec<Vec<Val>> = Vec::new();
    let mut columns_rows: Vec<Vec<Val>> = Vec::new();
    let mut validation_rows: Vec<Vec<Val>> = Vec::new();
    let mut all: Vec<(String, Vec<(ColSpec, i32)>)> = Vec::new();
    for t in &db.tables {
        all.push((t.name.clone(), t.cols.iter().map(|c| (c.spec.clone(), type_word(c))).collect()));
    }
    if db.with_validation {
        all.push(("_Validation".into(), vschema.iter().map(|c| (c.clone(), c.type_word())).collect()));
    }
    all.sort_by(|a, b| a.0.cmp(&b.0));
    for (name, cols) in &all {
        tables_rows.push(vec![Val::s(name)]);
        for (i, (c, tw)) in cols.iter().enumerate() {
            columns_rows.push(vec![Val::s(name), Val::Int(i as i32 + 1), Val::Str(c.name.clone()), Val::Int(*tw)]);
            if db.with_validation {
                validation_rows.push(validation_row(name, c));
            }
        }
    }
    validation_rows.sort_by(|a, b| (&a[0], &a[1]).cmp(&(&b[0], &b[1])));
    let cp = db.text_cp();
    let thru = |rows: Vec<Vec<Val>>| -> Vec<Vec<Val>> {
        rows.into_iter()
            .map(|r| {
                r.into_iter()
                    .map(|v| match v {
                        Val::Str(s) if s.is_empty() => Val::Null,
                        Val::Str(s) => Val::Str(crate::c14::ref_decode(cp, &ref_encode(cp, &s))),
                        v => v,
                    })
                    .collect()
            })
            .collect()
    };
    let cat_cols_tables = vec![ColSpec::new("Name", Ty::Str(64)).key()];
    let cat_cols_columns = vec![ColSpec::new("Table", Ty::Str(64)).key(), ColSpec::new("Number", Ty::I16).key(), ColSpec::new("Name", Ty::Str(64)), ColSpec::new("Type", Ty::I16)];
    let tr = thru(permute(&tables_rows, db.row_order));
    tables.push(TableSnap { name: "_Tables".into(), cols: cat_cols_tables, reported_len: tr.len(), rows: Ok(tr) });
    let cr = thru(permute(&columns_rows, db.row_order));
    tables.push(TableSnap { name: "_Columns".into(), cols: cat_cols_columns, reported_len: cr.len(), rows: Ok(cr) });
    if db.with_validation {
        let vr = thru(permute(&validation_rows, db.row_order));
        tables.push(TableSnap { name: "_Validation".into(), cols: norm_cols(&vschema), reported_len: vr.len(), rows: Ok(vr) });
    }
    for t in &db.tables {
        let rows = thru(permute(&t.rows, db.row_order));
        let specs: Vec<ColSpec> = t.cols.iter().map(|c| c.spec.clone()).collect();
        tables.push(TableSnap { name: t.name.clone(), cols: norm_cols(&specs), reported_len: rows.len(), rows: Ok(rows) });
    }
    tables.sort_by(|a, b| a.name.cmp(&b.name));
    let s = &db.summary;
    let scp: i32 = match s.codepage {
        None => 65001,
        Some(c) => c as i32,
    };
    let st = |x: &Option<String>| -> Option<String> { x.as_ref().map(|t| crate::c14::ref_decode(scp, &ref_encode(scp, t))) };
    let template = st(&s.template);
    let (arch, languages) = match &template {
        None => (None, vec![]),
        Some(t) => {
            let (a, l) = match t.split_once(';') {
                Some((a, l)) => (a.to_string(), l.to_string()),
                None => (t.clone(), String::new()),
            };
            (
                if a.is_empty() { None } else { Some(a) },
                if t.contains(';') { l.split(',').filter_map(|c| c.parse::<u16>().ok()).collect() } else { vec![] },
            )
        }
    };
    let summary = SummarySnap {
        codepage: scp,
        title: st(&s.title),
        subject: st(&s.subject),
        author: st(&s.author),
        comments: st(&s.comments),
        creating_app: st(&s.app),
        uuid: s.uuid.as_ref().map(|u| u.trim_matches(|c| c == '{' || c == '}').to_lowercase()),
        word_count: s.word_count,
        creation_ticks: s.creation_ticks_1601.map(|t| t as i64 - 116_444_736_000_000_000),
        arch,
        languages,
    };
    let mut streams: Vec<(String, Result<Vec<u8>, String>)> = db.streams.iter().map(|(n, c)| (n.clone(), Ok(c.clone()))).collect();
    streams.sort();
    Snapshot { ptype: db.ptype, db_codepage: cp, tables, streams, has_signature: false, summary }
}

pub fn default_summary() -> EncSummary {
    EncSummary {
        codepage: Some(1252),
        title: Some("Installation Database".into()),
        subject: Some("Subj".into()),
        author: Some("Auth".into()),
        comments: Some("Com".into()),
        template: Some("x64;1033".into()),
        uuid: Some("{0000002A-000C-0005-0C03-0938362B0809}".into()),
        creation_ticks_1601: Some(131_000_000_000_000_000),
        word_count: Some(2),
        app: Some("enc".into()),
        order: PropOrder::Ascending,
        extra_padding: 0,
        section_offset: 48,
        format_version: 0,
        extra_i1: None,
        empty_as_size_zero: false,
    }
}

#![allow(dead_code)]
//! msimc — bounded-exhaustive model checking of rust-msi properties C01..C20.
//! Usage: msimc <ID> <quick|thorough> | msimc replay <file> | msimc selftest

mod c02;
mod c03e2;
mod c06;
mod c07;
mod c09;
mod c10;
mod c12;
mod c13;
mod c14;
mod c15;
mod c16;
mod c17;
mod c18;
mod c19;
mod c20;
mod dec;
mod e1;
mod enc;
mod e1checks;
mod ops;
mod snapshot;
mod spec;
mod medium;
mod report;
mod val;

use report::Tier;

fn main() {
    report::install_panic_hook();
    let args: Vec<String> = std::env::args().collect();
    if args.len() < 2 {
        eprintln!("usage: msimc <ID> <quick|thorough> | replay <file> | selftest");
        std::process::exit(2);
    }
    let code = match report::catch(|| run(&args)) {
        Ok(c) => c,
        Err(p) => {
            eprintln!("MACHINERY: harness panicked: {}", p);
            2
        }
    };
    std::process::exit(code);
}

fn run(args: &[String]) -> i32 {
    let code = match args[1].as_str() {
        "c09-worker" => c09::worker(&args[2..]),
        "replay" => {
            let data = std::fs::read(&args[2]).expect("read replay file");
            let doc: serde_json::Value = serde_json::from_slice(&data).expect("json");
            println!("property {} signature {}", doc["property"], doc["signature"]);
            println!("recorded detail: {}", doc["detail"]);
            let r = &doc["replay"];
            match doc["property"].as_str().unwrap_or("") {
                "C13" => c13::replay(r),
                "C07" => c07::replay(r),
                "C12" => c12::replay(r),
                "C15" => c15::replay(r),
                "C02" => c02::replay(r),
                "C20" => c20::replay(r),
                "C09" => c09::replay(r),
                "C16" => c16::replay(r),
                "C06" => c06::replay(r),
                "C10" if r["kind"] == "c10-case" => c10::replay(r),
                "C14" => c14::replay(r),
                "C17" => c17::replay(r),
                "C18" => c18::replay(r),
                "C19" => c19::replay(r),
                "C01" | "C03" | "C04" | "C05" | "C08" | "C10" | "C11" if r["kind"] == "e1-history" => e1::replay_history(r),
                "C03" if r["kind"] == "c03-cond" => c03e2::replay(r),
                other => println!("no replayer for {}", other),
            }
            0
        }
        id => {
            let tier = match args.get(2).map(|s| s.as_str()).or(std::env::var("VERIF_TIER").ok().as_deref().map(|_| "env")) {
                Some("thorough") => Tier::Thorough,
                Some("env") => {
                    if std::env::var("VERIF_TIER").unwrap() == "thorough" { Tier::Thorough } else { Tier::Quick }
                }
                _ => Tier::Quick,
            };
            match id {
                "C13" => c13::run(tier),
                "C14" => c14::run(tier),
                "C17" => c17::run(tier),
                "C18" => c18::run(tier),
                "C19" => c19::run(tier),
                "C01" => e1checks::run_c01(tier),
                "C03" => e1checks::run_c03(tier),
                "C04" => e1checks::run_c04(tier),
                "C05" => e1checks::run_c05(tier),
                "C08" => e1checks::run_c08(tier),
                "C11" => e1checks::run_c11(tier),
                "C10" => c10::run(tier),
                "C07" => c07::run(tier),
                "C12" => c12::run(tier),
                "C15" => c15::run_check(tier),
                "C02" => c02::run(tier),
                "C20" => c20::run(tier),
                "C09" => c09::run(tier),
                "C16" => c16::run(tier),
                "C06" => c06::run(tier),
                _ => {
                    eprintln!("unknown check {}", id);
                    2
                }
            }
        }
    };
    code
}

//! Harness-owned medium: an in-memory file whose bytes stay observable while
//! the package is alive, which counts every call, can refuse writes, and can
//! inject faults at a chosen call index.

use std::cell::RefCell;
use std::io::{self, Read, Seek, SeekFrom, Write};
use std::rc::Rc;

#[derive(Clone, Copy, Debug, PartialEq, Eq, Hash, PartialOrd, Ord)]
pub enum Kind {
    Write,
    Read,
    Seek,
    Flush,
}

#[derive(Clone, Debug)]
pub struct Fault {
    pub kind: Kind,
    /// 0-based index among calls of that kind.
    pub index: u64,
    /// false: only that call fails; true: that call and all later calls of
    /// the kind fail.
    pub persistent: bool,
}

#[derive(Default)]
pub struct State {
    pub bytes: Vec<u8>,
    /// What a write-back medium would hold: the image at the last successful
    /// `flush` call (the initial bytes before any flush).
    pub durable: Vec<u8>,
    pub writes: u64,
    pub reads: u64,
    pub seeks: u64,
    pub flushes: u64,
    pub bytes_written: u64,
    pub faults: Vec<Fault>,
    pub faults_fired: u64,
    pub refuse_writes: bool,
    pub refused: u64,
    /// When set, (kind, position, len) of every call is logged.
    pub log_calls: bool,
    pub log: Vec<(Kind, u64, usize)>,
}

pub struct Medium {
    st: Rc<RefCell<State>>,
    pos: u64,
}

/// A handle the harness keeps to look at the medium while a package owns it.
#[derive(Clone)]
pub struct Peek {
    st: Rc<RefCell<State>>,
}

impl Peek {
    pub fn bytes(&self) -> Vec<u8> {
        self.st.borrow().bytes.clone()
    }
    /// The image a write-back medium holds: what was written before the last
    /// successful flush of the medium.
    pub fn durable_bytes(&self) -> Vec<u8> {
        self.st.borrow().durable.clone()
    }
    pub fn with<T>(&self, f: impl FnOnce(&mut State) -> T) -> T {
        f(&mut self.st.borrow_mut())
    }
    pub fn writes(&self) -> u64 {
        self.st.borrow().writes
    }
    pub fn counts(&self) -> (u64, u64, u64, u64) {
        let s = self.st.borrow();
        (s.writes, s.reads, s.seeks, s.flushes)
    }
}

impl Medium {
    pub fn new(bytes: Vec<u8>) -> (Medium, Peek) {
        let st = Rc::new(RefCell::new(State { durable: bytes.clone(), bytes, ..State::default() }));
        (Medium { st: st.clone(), pos: 0 }, Peek { st })
    }
    pub fn empty() -> (Medium, Peek) {
        Medium::new(Vec::new())
    }
    pub fn peek(&self) -> Peek {
        Peek { st: self.st.clone() }
    }
    pub fn into_bytes(self) -> Vec<u8> {
        let b = self.st.borrow().bytes.clone();
        b
    }
}

fn fires(st: &mut State, kind: Kind, index: u64) -> bool {
    let hit = st.faults.iter().any(|f| {
        f.kind == kind && (f.index == index || (f.persistent && index > f.index))
    });
    if hit {
        st.faults_fired += 1;
    }
    hit
}

fn injected(kind: Kind, index: u64) -> io::Error {
    io::Error::new(io::ErrorKind::Other, format!("injected {:?} fault at call {}", kind, index))
}

impl Read for Medium {
    fn read(&mut self, buf: &mut [u8]) -> io::Result<usize> {
        let mut st = self.st.borrow_mut();
        let idx = st.reads;
        st.reads += 1;
        if st.log_calls {
            let p = self.pos;
            st.log.push((Kind::Read, p, buf.len()));
        }
        if fires(&mut st, Kind::Read, idx) {
            return Err(injected(Kind::Read, idx));
        }
        let len = st.bytes.len() as u64;
        if self.pos >= len {
            return Ok(0);
        }
        let start = self.pos as usize;
        let n = buf.len().min(st.bytes.len() - start);
        buf[..n].copy_from_slice(&st.bytes[start..start + n]);
        self.pos += n as u64;
        Ok(n)
    }
}

impl Write for Medium {
    fn write(&mut self, buf: &[u8]) -> io::Result<usize> {
        let mut st = self.st.borrow_mut();
        let idx = st.writes;
        st.writes += 1;
        if st.log_calls {
            let p = self.pos;
            st.log.push((Kind::Write, p, buf.len()));
        }
        if st.refuse_writes {
            st.refused += 1;
            return Err(io::Error::new(io::ErrorKind::PermissionDenied, "medium is read-only"));
        }
        if fires(&mut st, Kind::Write, idx) {
            return Err(injected(Kind::Write, idx));
        }
        let start = self.pos as usize;
        let end = start + buf.len();
        if st.bytes.len() < end {
            st.bytes.resize(end, 0);
        }
        st.bytes[start..end].copy_from_slice(buf);
        st.bytes_written += buf.len() as u64;
        self.pos = end as u64;
        Ok(buf.len())
    }

    fn flush(&mut self) -> io::Result<()> {
        let mut st = self.st.borrow_mut();
        let idx = st.flushes;
        st.flushes += 1;
        if st.log_calls {
            let p = self.pos;
            st.log.push((Kind::Flush, p, 0));
        }
        if fires(&mut st, Kind::Flush, idx) {
            return Err(injected(Kind::Flush, idx));
        }
        st.durable = st.bytes.clone();
        Ok(())
    }
}

impl Seek for Medium {
    fn seek(&mut self, from: SeekFrom) -> io::Result<u64> {
        let mut st = self.st.borrow_mut();
        let idx = st.seeks;
        st.seeks += 1;
        if st.log_calls {
            let p = self.pos;
            st.log.push((Kind::Seek, p, 0));
        }
        if fires(&mut st, Kind::Seek, idx) {
            return Err(injected(Kind::Seek, idx));
        }
        let len = st.bytes.len() as i128;
        let new: i128 = match from {
            SeekFrom::Start(p) => p as i128,
            SeekFrom::End(d) => len + d as i128,
            SeekFrom::Current(d) => self.pos as i128 + d as i128,
        };
        if new < 0 {
            return Err(io::Error::new(io::ErrorKind::InvalidInput, "seek before start"));
        }
        self.pos = new as u64;
        Ok(self.pos)
    }
}

//! Operation alphabet: one `Op` value is one API call (or close/reopen), with
//! its execution on the real package (`Harness`) and on the reference model
//! (`Model`).

use crate::medium::{Medium, Peek};
use crate::report::catch;
use crate::snapshot::{ptype_of, Pkg, Snapshot, SummarySnap, TableSnap};
use crate::spec::{ColSpec, Tri, Ty};
use crate::val::{ref_eval, Val, E};
use serde::{Deserialize, Serialize};
use std::collections::BTreeMap;
use std::io::Write;
use std::time::{Duration, UNIX_EPOCH};

#[derive(Clone, Debug, PartialEq, Eq, Hash, Serialize, Deserialize)]
pub enum SumOp {
    SetTitle(String),
    ClearTitle,
    SetSubject(String),
    ClearSubject,
    SetAuthor(String),
    ClearAuthor,
    SetComments(String),
    ClearComments,
    SetApp(String),
    ClearApp,
    SetUuid(String),
    ClearUuid,
    SetWordCount(i32),
    ClearWordCount,
    /// ticks (100 ns) relative to the Unix epoch
    SetCreationTicks(i64),
    ClearCreationTime,
    SetArch(String),
    ClearArch,
    SetLanguages(Vec<u16>),
    ClearLanguages,
    SetCodepage(i32),
}

#[derive(Clone, Debug, PartialEq, Eq, Hash, Serialize, Deserialize)]
pub enum Op {
    CreateTable { name: String, cols: Vec<ColSpec> },
    DropTable { name: String },
    Insert { table: String, rows: Vec<Vec<Val>> },
    Update { table: String, sets: Vec<(String, Val)>, cond: Option<E> },
    Delete { table: String, cond: Option<E> },
    /// content = `len` bytes: byte i is (seed + i) mod 251
    WriteStream { name: String, len: usize, seed: u8 },
    /// like WriteStream, but the writer is dropped without an explicit flush
    WriteStreamDrop { name: String, len: usize, seed: u8 },
    RemoveStream { name: String },
    ReadMissing { name: String },
    Summary(SumOp),
    SetDbCodepage(i32),
    RemoveSignature,
    Flush,
    /// into_inner + open
    Reopen,
    /// drop + open
    DropReopen,
    /// a select that is expected to fail (C04 menu)
    BadSelect { table: String, cols: Vec<String>, cond: Option<E> },
}

impl Op {
    pub fn kind(&self) -> &'static str {
        match self {
            Op::CreateTable { .. } => "create_table",
            Op::DropTable { .. } => "drop_table",
            Op::Insert { .. } => "insert",
            Op::Update { .. } => "update",
            Op::Delete { .. } => "delete",
            Op::WriteStream { .. } => "write_stream",
            Op::WriteStreamDrop { .. } => "write_stream",
            Op::RemoveStream { .. } => "remove_stream",
            Op::ReadMissing { .. } => "read_stream",
            Op::Summary(_) => "summary",
            Op::SetDbCodepage(_) => "set_database_codepage",
            Op::RemoveSignature => "remove_digital_signature",
            Op::Flush => "flush",
            Op::Reopen => "reopen",
            Op::DropReopen => "drop_reopen",
            Op::BadSelect { .. } => "select",
        }
    }

    pub fn show(&self) -> String {
        match self {
            Op::CreateTable { name, cols } => format!(
                "create_table({}; {})",
                name,
                cols.iter()
                    .map(|c| format!(
                        "{}:{:?}{}{}{}",
                        c.name,
                        c.ty,
                        if c.key { " key" } else { "" },
                        if c.nullable { " null" } else { "" },
                        if c.localizable { " loc" } else { "" }
                    ))
                    .collect::<Vec<_>>()
                    .join(", ")
            ),
            Op::DropTable { name } => format!("drop_table({})", name),
            Op::Insert { table, rows } => format!(
                "insert({}; {})",
                table,
                rows.iter().map(|r| format!("({})", r.iter().map(short).collect::<Vec<_>>().join(","))).collect::<Vec<_>>().join(" ")
            ),
            Op::Update { table, sets, cond } => format!(
                "update({} set {}{})",
                table,
                sets.iter().map(|(c, v)| format!("{}={}", c, short(v))).collect::<Vec<_>>().join(","),
                cond.as_ref().map(|c| format!(" where {}", c.show())).unwrap_or_default()
            ),
            Op::Delete { table, cond } => format!("delete({}{})", table, cond.as_ref().map(|c| format!(" where {}", c.show())).unwrap_or_default()),
            Op::WriteStream { name, len, seed } => format!("write_stream({:?},{}B,seed{})", name, len, seed),
            Op::WriteStreamDrop { name, len, seed } => format!("write_stream({:?},{}B,seed{}; writer dropped unflushed)", name, len, seed),
            Op::RemoveStream { name } => format!("remove_stream({:?})", name),
            Op::ReadMissing { name } => format!("read_stream({:?})", name),
            Op::Summary(s) => format!("summary.{:?}", s),
            Op::SetDbCodepage(c) => format!("set_database_codepage({})", c),
            Op::RemoveSignature => "remove_digital_signature".into(),
            Op::Flush => "flush".into(),
            Op::Reopen => "reopen".into(),
            Op::DropReopen => "drop+reopen".into(),
            Op::BadSelect { table, cols, cond } => format!("select({} cols {:?}{})", table, cols, cond.as_ref().map(|c| format!(" where {}", c.show())).unwrap_or_default()),
        }
    }
}

fn short(v: &Val) -> String {
    let s = v.show();
    if s.chars().count() > 24 {
        format!("{}..[{}]", s.chars().take(12).collect::<String>(), s.chars().count())
    } else {
        s
    }
}

pub fn stream_content(len: usize, seed: u8) -> Vec<u8> {
    (0..len).map(|i| ((seed as usize + i) % 251) as u8).collect()
}

#[derive(Clone, Debug, PartialEq, Eq)]
pub enum Outcome {
    Ok,
    Err(String),
    Panic(String),
}

impl Outcome {
    pub fn is_ok(&self) -> bool {
        matches!(self, Outcome::Ok)
    }
}

// ------------------------------------------------------------------------- //

pub struct Harness {
    pub pkg: Option<Pkg>,
    pub peek: Peek,
}

impl Drop for Harness {
    /// A package whose container panicked earlier (poisoned lock inside cfb)
    /// may panic again while being dropped; that must not take the checker
    /// down.
    fn drop(&mut self) {
        if let Some(p) = self.pkg.take() {
            let _ = catch(move || drop(p));
        }
    }
}

fn io_res<T>(r: std::io::Result<T>) -> Outcome {
    match r {
        Ok(_) => Outcome::Ok,
        Err(e) => Outcome::Err(format!("{:?}: {}", e.kind(), e)),
    }
}

impl Harness {
    pub fn create(ptype: u8) -> Result<Harness, String> {
        let (m, peek) = Medium::empty();
        let r = catch(|| msi::Package::create(ptype_of(ptype), m));
        match r {
            Ok(Ok(p)) => Ok(Harness { pkg: Some(p), peek }),
            Ok(Err(e)) => Err(format!("Package::create failed: {}", e)),
            Err(p) => Err(format!("Package::create panicked: {}", p)),
        }
    }

    pub fn open(bytes: Vec<u8>) -> Result<Harness, String> {
        let (m, peek) = Medium::new(bytes);
        let r = catch(|| msi::Package::open(m));
        match r {
            Ok(Ok(p)) => Ok(Harness { pkg: Some(p), peek }),
            Ok(Err(e)) => Err(format!("{:?}: {}", e.kind(), e)),
            Err(p) => Err(format!("PANIC {}", p)),
        }
    }

    pub fn p(&mut self) -> &mut Pkg {
        self.pkg.as_mut().expect("package alive")
    }

    /// Closes by into_inner and returns the bytes.
    pub fn close_into_inner(mut self) -> Result<Vec<u8>, String> {
        let p = self.pkg.take().unwrap();
        match catch(|| p.into_inner()) {
            Ok(Ok(m)) => Ok(m.into_bytes()),
            Ok(Err(e)) => Err(format!("into_inner failed: {}", e)),
            Err(pn) => Err(format!("into_inner panicked: {}", pn)),
        }
    }

    /// Closes by dropping and returns the bytes.
    pub fn close_drop(mut self) -> Result<Vec<u8>, String> {
        let p = self.pkg.take().unwrap();
        match catch(move || drop(p)) {
            Ok(()) => Ok(self.peek.bytes()),
            Err(pn) => Err(format!("drop panicked: {}", pn)),
        }
    }

    /// Flushes and returns the bytes on the medium while the package is still
    /// alive (= what a crash right after the flush would leave).
    pub fn flush_and_peek(&mut self) -> Result<Vec<u8>, String> {
        match catch(|| self.p().flush()) {
            // the image a write-back medium holds at this moment: a flush of the
            // package that does not flush the medium leaves it stale
            Ok(Ok(())) => Ok(self.peek.durable_bytes()),
            Ok(Err(e)) => Err(format!("flush failed: {}", e)),
            Err(pn) => Err(format!("flush panicked: {}", pn)),
        }
    }

    fn reopen_with(&mut self, bytes: Result<Vec<u8>, String>) -> Outcome {
        match bytes {
            Err(e) => Outcome::Err(e),
            Ok(b) => match Harness::open(b) {
                Ok(mut h) => {
                    self.pkg = h.pkg.take();
                    self.peek = h.peek.clone();
                    Outcome::Ok
                }
                Err(e) => {
                    if e.starts_with("PANIC") {
                        Outcome::Panic(e)
                    } else {
                        Outcome::Err(format!("reopen failed: {}", e))
                    }
                }
            },
        }
    }

    pub fn apply(&mut self, op: &Op) -> Outcome {
        match op {
            Op::Reopen => {
                let p = self.pkg.take().unwrap();
                let b = match catch(|| p.into_inner()) {
                    Ok(Ok(m)) => Ok(m.into_bytes()),
                    Ok(Err(e)) => Err(format!("into_inner failed: {}", e)),
                    Err(pn) => return Outcome::Panic(pn),
                };
                return self.reopen_with(b);
            }
            Op::DropReopen => {
                let p = self.pkg.take().unwrap();
                if let Err(pn) = catch(move || drop(p)) {
                    return Outcome::Panic(pn);
                }
                let b = Ok(self.peek.bytes());
                return self.reopen_with(b);
            }
            _ => {}
        }
        let p = self.pkg.as_mut().expect("package alive");
        let r = catch(|| -> Outcome {
            match op {
                Op::CreateTable { name, cols } => io_res(p.create_table(name.clone(), cols.iter().map(|c| c.to_msi()).collect())),
                Op::DropTable { name } => io_res(p.drop_table(name)),
                Op::Insert { table, rows } => {
                    let mut q = msi::Insert::into(table.clone());
                    if rows.len() >= 2 && rows.len() % 2 == 0 {
                        // the batch form of the builder
                        q = q.rows(rows.iter().map(|r| r.iter().map(|v| v.to_msi()).collect()).collect());
                    } else {
                        for r in rows {
                            q = q.row(r.iter().map(|v| v.to_msi()).collect());
                        }
                    }
                    io_res(p.insert_rows(q))
                }
                Op::Update { table, sets, cond } => {
                    let mut q = msi::Update::table(table.clone());
                    for (c, v) in sets {
                        q = q.set(c.clone(), v.to_msi());
                    }
                    if let Some(c) = cond {
                        q = q.with(c.to_msi());
                    }
                    io_res(p.update_rows(q))
                }
                Op::Delete { table, cond } => {
                    let mut q = msi::Delete::from(table.clone());
                    if let Some(c) = cond {
                        q = q.with(c.to_msi());
                    }
                    io_res(p.delete_rows(q))
                }
                Op::WriteStream { name, len, seed } => match p.write_stream(name) {
                    Err(e) => io_res::<()>(Err(e)),
                    Ok(mut w) => {
                        // in three pieces, the way a copy loop would
                        let c = stream_content(*len, *seed);
                        let a = c.len() / 3;
                        let b = c.len() - c.len() / 4;
                        let r = w.write_all(&c[..a]).and_then(|_| w.write_all(&c[a..b])).and_then(|_| w.write_all(&c[b..])).and_then(|_| w.flush());
                        io_res(r)
                    }
                },
                Op::WriteStreamDrop { name, len, seed } => match p.write_stream(name) {
                    Err(e) => io_res::<()>(Err(e)),
                    Ok(mut w) => {
                        let r = w.write_all(&stream_content(*len, *seed));
                        drop(w);
                        io_res(r)
                    }
                },
                Op::RemoveStream { name } => io_res(p.remove_stream(name)),
                Op::ReadMissing { name } => io_res(p.read_stream(name).map(|_| ())),
                Op::Summary(s) => {
                    let si = p.summary_info_mut();
                    match s {
                        SumOp::SetTitle(x) => si.set_title(x.clone()),
                        SumOp::ClearTitle => si.clear_title(),
                        SumOp::SetSubject(x) => si.set_subject(x.clone()),
                        SumOp::ClearSubject => si.clear_subject(),
                        SumOp::SetAuthor(x) => si.set_author(x.clone()),
                        SumOp::ClearAuthor => si.clear_author(),
                        SumOp::SetComments(x) => si.set_comments(x.clone()),
                        SumOp::ClearComments => si.clear_comments(),
                        SumOp::SetApp(x) => si.set_creating_application(x.clone()),
                        SumOp::ClearApp => si.clear_creating_application(),
                        SumOp::SetUuid(x) => si.set_uuid(uuid::Uuid::parse_str(x).expect("uuid")),
                        SumOp::ClearUuid => si.clear_uuid(),
                        SumOp::SetWordCount(n) => si.set_word_count(*n),
                        SumOp::ClearWordCount => si.clear_word_count(),
                        SumOp::SetCreationTicks(t) => si.set_creation_time(ticks_to_time(*t)),
                        SumOp::ClearCreationTime => si.clear_creation_time(),
                        SumOp::SetArch(a) => si.set_arch(a.clone()),
                        SumOp::ClearArch => si.clear_arch(),
                        SumOp::SetLanguages(l) => {
                            let v: Vec<msi::Language> = l.iter().map(|c| msi::Language::from_code(*c)).collect();
                            si.set_languages(&v)
                        }
                        SumOp::ClearLanguages => si.clear_languages(),
                        SumOp::SetCodepage(id) => si.set_codepage(msi::CodePage::from_id(*id).expect("supported code page")),
                    }
                    Outcome::Ok
                }
                Op::SetDbCodepage(id) => {
                    p.set_database_codepage(msi::CodePage::from_id(*id).expect("supported code page"));
                    Outcome::Ok
                }
                Op::RemoveSignature => io_res(p.remove_digital_signature()),
                Op::Flush => io_res(p.flush()),
                Op::BadSelect { table, cols, cond } => {
                    let mut q = msi::Select::table(table.clone());
                    if !cols.is_empty() {
                        q = q.columns(&cols[..]);
                    }
                    if let Some(c) = cond {
                        q = q.with(c.to_msi());
                    }
                    io_res(p.select_rows(q).map(|r| r.count()))
                }
                Op::Reopen | Op::DropReopen => unreachable!(),
            }
        });
        match r {
            Ok(o) => o,
            Err(pn) => Outcome::Panic(pn),
        }
    }
}

pub fn ticks_to_time(t: i64) -> std::time::SystemTime {
    if t >= 0 {
        UNIX_EPOCH + Duration::new((t / 10_000_000) as u64, ((t % 10_000_000) * 100) as u32)
    } else {
        let m = -t;
        UNIX_EPOCH - Duration::new((m / 10_000_000) as u64, ((m % 10_000_000) * 100) as u32)
    }
}

// ------------------------------------------------------------------------- //
// Reference model
// ------------------------------------------------------------------------- //

#[derive(Clone, Debug, PartialEq, Eq)]
pub struct TableM {
    pub cols: Vec<ColSpec>,
    /// sorted by key tuple for tables created through the API; tables read
    /// from a foreign file keep their file order until first rewritten
    pub rows: Vec<Vec<Val>>,
    /// the rows of _Columns / _Validation that describe this table
    pub cat_columns: Vec<Vec<Val>>,
    pub cat_validation: Vec<Vec<Val>>,
}

impl TableM {
    /// A table created through the API: catalog rows derived from the spec.
    pub fn created(name: &str, cols: &[ColSpec], with_validation: bool) -> TableM {
        let mut cat_columns = Vec::new();
        let mut cat_validation = Vec::new();
        for (i, c) in cols.iter().enumerate() {
            cat_columns.push(vec![Val::s(name), Val::Int(i as i32 + 1), Val::Str(c.name.clone()), Val::Int(c.type_word())]);
            if with_validation {
                cat_validation.push(vec![
                    Val::s(name),
                    Val::Str(c.name.clone()),
                    Val::s(if c.nullable { "Y" } else { "N" }),
                    c.range.map(|r| Val::Int(r.0)).unwrap_or(Val::Null),
                    c.range.map(|r| Val::Int(r.1)).unwrap_or(Val::Null),
                    c.fk.as_ref().map(|f| Val::Str(f.0.clone())).unwrap_or(Val::Null),
                    c.fk.as_ref().map(|f| Val::Int(f.1)).unwrap_or(Val::Null),
                    c.category.as_ref().map(|x| Val::Str(crate::spec::canon_category(x))).unwrap_or(Val::Null),
                    if c.enums.is_empty() { Val::Null } else { Val::Str(c.enums.join(";")) },
                    Val::Null,
                ]);
            }
        }
        TableM { cols: cols.to_vec(), rows: vec![], cat_columns, cat_validation }
    }
}

impl TableM {
    pub fn key_idx(&self) -> Vec<usize> {
        self.cols.iter().enumerate().filter(|(_, c)| c.key).map(|(i, _)| i).collect()
    }
    pub fn key_of(&self, row: &[Val]) -> Vec<Val> {
        self.key_idx().iter().map(|&i| row[i].clone()).collect()
    }
    pub fn sort(&mut self) {
        let k = self.key_idx();
        self.rows.sort_by(|a, b| {
            let ka: Vec<&Val> = k.iter().map(|&i| &a[i]).collect();
            let kb: Vec<&Val> = k.iter().map(|&i| &b[i]).collect();
            ka.cmp(&kb)
        });
    }
    pub fn col_index(&self, name: &str) -> Option<usize> {
        self.cols.iter().position(|c| c.name == name)
    }
}

#[derive(Clone, Copy, Debug, PartialEq, Eq)]
pub enum Expect {
    Ok,
    Err,
    /// the documentation leaves the answer open
    Either,
}

#[derive(Clone, Debug)]
pub struct Model {
    pub ptype: u8,
    pub db_codepage: i32,
    pub tables: BTreeMap<String, TableM>,
    pub streams: BTreeMap<String, Vec<u8>>,
    pub summary: SummarySnap,
    pub has_signature: bool,
    /// rows of the catalog tables that describe `_Validation` itself, as
    /// observed on a freshly created package (baseline, not modelled)
    /// complete current content of the three catalog tables, in stored order
    pub base_tables: Vec<Vec<Val>>,
    pub base_columns: Vec<Vec<Val>>,
    pub base_validation: Vec<Vec<Val>>,
    pub catalog_cols: BTreeMap<String, Vec<ColSpec>>,
    /// set when the reference could not determine the effect of a call
    pub diverged: bool,
}

pub fn is_table_name_ok(name: &str) -> Tri {
    // identifier, and the mangled name with the table marker fits in 31 units
    match crate::spec::category_accepts("Identifier", name) {
        Tri::Accept => {}
        t => return t,
    }
    let units = crate::dec::mangle(name, true).encode_utf16().count();
    if units > 31 {
        return Tri::Reject;
    }
    // the catalog's Table column is a 32-character identifier (_Validation)
    // resp. 64-character string (_Tables/_Columns)
    // (whether a library stores longer names is its choice: either refuse, or
    // accept and round-trip)
    if name.chars().count() > 32 {
        return Tri::Unspecified;
    }
    Tri::Accept
}

impl Model {
    /// Model of a freshly created package; the catalog baseline (the rows
    /// describing `_Validation` itself) is read from the snapshot of a real
    /// freshly created package.
    pub fn new(ptype: u8, fresh: &Snapshot) -> Model {
        let mut m = Model::from_snapshot(fresh);
        m.ptype = ptype;
        m
    }

    /// Model of an arbitrary opened package, taken from its observation:
    /// user tables keep their rows in file order and their catalog rows as
    /// found.
    pub fn from_snapshot(snap: &Snapshot) -> Model {
        let rows_of = |n: &str| -> Vec<Vec<Val>> { snap.table(n).and_then(|t| t.rows.clone().ok()).unwrap_or_default() };
        let mut catalog_cols = BTreeMap::new();
        let mut tables = BTreeMap::new();
        let is_cat = |n: &str| n == "_Tables" || n == "_Columns" || n == "_Validation";
        let all_columns = rows_of("_Columns");
        let all_validation = rows_of("_Validation");
        for t in &snap.tables {
            if is_cat(&t.name) {
                catalog_cols.insert(t.name.clone(), t.cols.clone());
            } else {
                let name = Val::Str(t.name.clone());
                tables.insert(
                    t.name.clone(),
                    TableM {
                        cols: t.cols.clone(),
                        rows: t.rows.clone().unwrap_or_default(),
                        cat_columns: all_columns.iter().filter(|r| r[0] == name).cloned().collect(),
                        cat_validation: all_validation.iter().filter(|r| r[0] == name).cloned().collect(),
                    },
                );
            }
        }
        Model {
            ptype: snap.ptype,
            db_codepage: snap.db_codepage,
            streams: snap.streams.iter().filter_map(|(n, c)| c.clone().ok().map(|b| (n.clone(), b))).collect(),
            summary: snap.summary.clone(),
            has_signature: snap.has_signature,
            base_tables: rows_of("_Tables"),
            base_columns: all_columns.clone(),
            base_validation: all_validation.clone(),
            catalog_cols,
            tables,
            diverged: false,
        }
    }

    pub fn has_validation(&self) -> bool {
        self.catalog_cols.contains_key("_Validation")
    }

    fn eval_cond(t: &TableM, row: &[Val], cond: &Option<E>) -> Vec<bool> {
        match cond {
            None => vec![true],
            Some(e) => {
                let look = |name: &str| -> Val { t.col_index(name).map(|i| row[i].clone()).unwrap_or(Val::Null) };
                let mut r: Vec<bool> = ref_eval(e, &look).iter().map(|v| v.truthy()).collect();
                r.sort();
                r.dedup();
                r
            }
        }
    }

    fn cond_cols_ok(t: &TableM, cond: &Option<E>) -> bool {
        match cond {
            None => true,
            Some(e) => {
                let mut cols = std::collections::BTreeSet::new();
                e.columns(&mut cols);
                cols.iter().all(|c| t.col_index(c).is_some())
            }
        }
    }

    /// Applies `op`; returns what the real call must answer.  The model takes
    /// the effect when the answer is `Ok`, or when it is `Either` and the real
    /// call succeeded (`real_ok`).  On `Err` the model is unchanged.
    pub fn apply(&mut self, op: &Op, real_ok: bool) -> Expect {
        let mut trial = self.clone();
        let v = trial.apply_inner(op);
        let diverged = trial.diverged;
        match v {
            Expect::Ok => *self = trial,
            Expect::Either if real_ok && !diverged => *self = trial,
            _ => {}
        }
        if diverged {
            self.diverged = true;
        }
        v
    }

    /// Mutates as if the call succeeds unless it returns `Err`.
    fn apply_inner(&mut self, op: &Op) -> Expect {
        match op {
            Op::CreateTable { name, cols } => {
                let mut verdict = Expect::Ok;
                match is_table_name_ok(name) {
                    Tri::Reject => return Expect::Err,
                    Tri::Unspecified => verdict = Expect::Either,
                    Tri::Accept => {}
                }
                if name == "_Tables" || name == "_Columns" || name == "_Validation" || self.tables.contains_key(name) {
                    return Expect::Err;
                }
                // the string pool's two streams are stored under table names:
                // a table of that name may be refused; if it is accepted it
                // must behave like any other table
                if name == "_StringPool" || name == "_StringData" {
                    verdict = Expect::Either;
                }
                if cols.is_empty() || cols.len() > 32 || !cols.iter().any(|c| c.key) {
                    return Expect::Err;
                }
                let mut seen = std::collections::BTreeSet::new();
                for c in cols {
                    match crate::spec::category_accepts("Identifier", &c.name) {
                        Tri::Reject => return Expect::Err,
                        Tri::Unspecified => verdict = Expect::Either,
                        Tri::Accept => {}
                    }
                    if !seen.insert(c.name.clone()) {
                        return Expect::Err;
                    }
                    // Representability in the catalog tables: the library must
                    // either refuse, or accept and preserve (C06 decides by
                    // round trip), so the answer itself is left open.
                    if c.name.chars().count() > 32 {
                        verdict = Expect::Either;
                    }
                    if let Ty::Str(w) = c.ty {
                        if w > 255 {
                            verdict = Expect::Either;
                        }
                    }
                    if let Some((lo, hi)) = c.range {
                        if lo == i32::MIN || hi == i32::MIN {
                            verdict = Expect::Either;
                        }
                    }
                    if let Some((t, k)) = &c.fk {
                        if crate::spec::category_accepts("Identifier", t) != Tri::Accept || *k < 1 || *k > 32 || t.chars().count() > 255 {
                            verdict = Expect::Either;
                        }
                    }
                    if !c.enums.is_empty() {
                        if c.enums.iter().any(|e| e.is_empty() || e.contains(';')) {
                            verdict = Expect::Either;
                        }
                        if c.enums.join(";").chars().count() > 255 {
                            verdict = Expect::Either;
                        }
                    }
                }
                let hv = self.has_validation();
                let t = TableM::created(name, cols, hv);
                // the library re-sorts a catalog table whenever it inserts
                self.base_tables.push(vec![Val::Str(name.clone())]);
                self.base_tables.sort();
                self.base_columns.extend(t.cat_columns.iter().cloned());
                self.base_columns.sort_by(|a, b| (&a[0], &a[1]).cmp(&(&b[0], &b[1])));
                if hv {
                    self.base_validation.extend(t.cat_validation.iter().cloned());
                    self.base_validation.sort_by(|a, b| (&a[0], &a[1]).cmp(&(&b[0], &b[1])));
                }
                self.tables.insert(name.clone(), t);
                verdict
            }
            Op::DropTable { name } => {
                if self.tables.remove(name).is_some() {
                    let n = Val::Str(name.clone());
                    self.base_tables.retain(|r| r[0] != n);
                    self.base_columns.retain(|r| r[0] != n);
                    self.base_validation.retain(|r| r[0] != n);
                    Expect::Ok
                } else {
                    Expect::Err
                }
            }
            Op::Insert { table, rows } => {
                let t = match self.tables.get_mut(table) {
                    Some(t) => t,
                    None => return Expect::Err,
                };
                let mut verdict = Expect::Ok;
                for r in rows {
                    if r.len() != t.cols.len() {
                        return Expect::Err;
                    }
                    for (c, v) in t.cols.iter().zip(r.iter()) {
                        match c.accepts(v) {
                            Tri::Reject => return Expect::Err,
                            Tri::Unspecified => verdict = Expect::Either,
                            Tri::Accept => {}
                        }
                    }
                }
                // duplicate keys ("" and null are one stored value)
                let norm_key = |t: &TableM, r: &[Val]| -> Vec<Val> { t.key_of(r).iter().map(|v| v.norm_empty()).collect() };
                let mut keys: std::collections::BTreeSet<Vec<Val>> = t.rows.iter().map(|r| norm_key(t, r)).collect();
                for r in rows {
                    if !keys.insert(norm_key(t, r)) {
                        return Expect::Err;
                    }
                }
                // "" and null are one stored value: the model keeps null
                for r in rows {
                    t.rows.push(r.iter().map(|v| v.norm_empty()).collect());
                }
                t.sort();
                verdict
            }
            Op::Update { table, sets, cond } => {
                let t = match self.tables.get_mut(table) {
                    Some(t) => t,
                    None => return Expect::Err,
                };
                let mut verdict = Expect::Ok;
                for (c, v) in sets {
                    let i = match t.col_index(c) {
                        Some(i) => i,
                        None => return Expect::Err,
                    };
                    match t.cols[i].accepts(v) {
                        Tri::Reject => return Expect::Err,
                        Tri::Unspecified => verdict = Expect::Either,
                        Tri::Accept => {}
                    }
                }
                if !Model::cond_cols_ok(t, cond) {
                    return Expect::Err;
                }
                let mut new_rows = t.rows.clone();
                for r in new_rows.iter_mut() {
                    let m = Model::eval_cond(t, r, cond);
                    if m.len() != 1 {
                        self.diverged = true; // condition with unspecified value
                        return Expect::Either;
                    }
                    if m[0] {
                        for (c, v) in sets {
                            let i = t.col_index(c).unwrap();
                            r[i] = v.norm_empty();
                        }
                    }
                }
                // key uniqueness after the update: a result with two rows of
                // equal key is refused
                let mut keys = std::collections::BTreeSet::new();
                for r in &new_rows {
                    let k: Vec<Val> = t.key_of(r).iter().map(|v| v.norm_empty()).collect();
                    if !keys.insert(k) {
                        return Expect::Err;
                    }
                }
                t.rows = new_rows;
                // the library re-sorts only when a key column was assigned
                if sets.iter().any(|(c, _)| t.col_index(c).map(|i| t.cols[i].key).unwrap_or(false)) {
                    t.sort();
                }
                verdict
            }
            Op::Delete { table, cond } => {
                let t = match self.tables.get_mut(table) {
                    Some(t) => t,
                    None => return Expect::Err,
                };
                if !Model::cond_cols_ok(t, cond) {
                    return Expect::Err;
                }
                let mut keep = Vec::new();
                for r in t.rows.iter() {
                    let m = Model::eval_cond(t, r, cond);
                    if m.len() != 1 {
                        self.diverged = true;
                        return Expect::Either;
                    }
                    if !m[0] {
                        keep.push(r.clone());
                    }
                }
                t.rows = keep;
                Expect::Ok
            }
            Op::BadSelect { table, cols, cond } => {
                let t = match self.tables.get(table) {
                    Some(t) => t,
                    None => return Expect::Err,
                };
                if cols.iter().any(|c| t.col_index(c).is_none()) || !Model::cond_cols_ok(t, cond) {
                    return Expect::Err;
                }
                Expect::Ok
            }
            Op::WriteStream { name, len, seed } | Op::WriteStreamDrop { name, len, seed } => {
                let c = stream_name_class(name);
                if c == Tri::Reject {
                    return Expect::Err;
                }
                // names equal under the container's comparison are one entry
                let cls = name_class(name);
                self.streams.retain(|k, _| name_class(k) != cls);
                self.streams.insert(name.clone(), stream_content(*len, *seed));
                if c == Tri::Accept {
                    Expect::Ok
                } else {
                    Expect::Either
                }
            }
            Op::RemoveStream { name } => {
                let c = stream_name_class(name);
                if c == Tri::Reject {
                    return Expect::Err;
                }
                let cls = name_class(name);
                let n = self.streams.len();
                self.streams.retain(|k, _| name_class(k) != cls);
                if self.streams.len() < n {
                    if c == Tri::Accept {
                        Expect::Ok
                    } else {
                        Expect::Either
                    }
                } else {
                    Expect::Err
                }
            }
            Op::ReadMissing { name } => {
                let cls = name_class(name);
                if self.streams.keys().any(|k| name_class(k) == cls) {
                    Expect::Ok
                } else if stream_name_class(name) == Tri::Unspecified {
                    Expect::Either
                } else {
                    Expect::Err
                }
            }
            Op::Summary(s) => {
                let m = &mut self.summary;
                match s {
                    SumOp::SetTitle(x) => m.title = Some(x.clone()),
                    SumOp::ClearTitle => m.title = None,
                    SumOp::SetSubject(x) => m.subject = Some(x.clone()),
                    SumOp::ClearSubject => m.subject = None,
                    SumOp::SetAuthor(x) => m.author = Some(x.clone()),
                    SumOp::ClearAuthor => m.author = None,
                    SumOp::SetComments(x) => m.comments = Some(x.clone()),
                    SumOp::ClearComments => m.comments = None,
                    SumOp::SetApp(x) => m.creating_app = Some(x.clone()),
                    SumOp::ClearApp => m.creating_app = None,
                    SumOp::SetUuid(x) => m.uuid = Some(x.to_lowercase()),
                    SumOp::ClearUuid => m.uuid = None,
                    SumOp::SetWordCount(n) => m.word_count = Some(*n),
                    SumOp::ClearWordCount => m.word_count = None,
                    SumOp::SetCreationTicks(t) => m.creation_ticks = Some(*t),
                    SumOp::ClearCreationTime => m.creation_ticks = None,
                    SumOp::SetArch(a) => m.arch = if a.is_empty() { None } else { Some(a.clone()) },
                    SumOp::ClearArch => m.arch = None,
                    SumOp::SetLanguages(l) => m.languages = l.clone(),
                    SumOp::ClearLanguages => m.languages = vec![],
                    SumOp::SetCodepage(id) => m.codepage = *id,
                }
                Expect::Ok
            }
            Op::SetDbCodepage(id) => {
                self.db_codepage = *id;
                Expect::Ok
            }
            Op::RemoveSignature => {
                self.has_signature = false;
                Expect::Ok
            }
            Op::Flush => Expect::Ok,
            Op::Reopen | Op::DropReopen => {
                // text goes through its code page: characters it cannot
                // represent come back as the replacement byte '?'
                let cp = self.summary.codepage;
                let thru = |cp: i32, s: &str| -> String { crate::c14::ref_decode(cp, &crate::c14::ref_encode(cp, s)) };
                for f in [&mut self.summary.title, &mut self.summary.subject, &mut self.summary.author, &mut self.summary.comments, &mut self.summary.creating_app, &mut self.summary.arch] {
                    if let Some(t) = f {
                        *t = thru(cp, t);
                    }
                }
                let dcp = self.db_codepage;
                for t in self.tables.values_mut() {
                    for r in t.rows.iter_mut() {
                        for c in r.iter_mut() {
                            if let Val::Str(x) = c {
                                *x = thru(dcp, x);
                            }
                        }
                    }
                }
                Expect::Ok
            }
        }
    }

    /// The snapshot the real package must show (before any close: cells keep
    /// the values given, `""` included).
    pub fn expected_snapshot(&self) -> Snapshot {
        let mut tables = Vec::new();
        // catalog rows
        let t_rows = self.base_tables.clone();
        let c_rows = self.base_columns.clone();
        let v_rows = self.base_validation.clone();
        for (n, rows) in [("_Tables", t_rows), ("_Columns", c_rows), ("_Validation", v_rows)] {
            if let Some(cols) = self.catalog_cols.get(n) {
                tables.push(TableSnap { name: n.to_string(), cols: cols.clone(), reported_len: rows.len(), rows: Ok(rows) });
            }
        }
        for (name, t) in &self.tables {
            tables.push(TableSnap {
                name: name.clone(),
                cols: t.cols.iter().map(|c| c.without_fk()).collect(),
                reported_len: t.rows.len(),
                rows: Ok(t.rows.clone()),
            });
        }
        tables.sort_by(|a, b| a.name.cmp(&b.name));
        Snapshot {
            ptype: self.ptype,
            db_codepage: self.db_codepage,
            tables,
            streams: self.streams.iter().map(|(k, v)| (k.clone(), Ok(v.clone()))).collect(),
            has_signature: self.has_signature,
            summary: self.summary.clone(),
        }
    }
}

/// The container compares (encoded) names by UTF-16 length, then upper-cased
/// text.  Two given names are the same entry for the model only if their
/// encodings are equal under that comparison AND the names themselves differ
/// by case only (so "00" and U+3800, whose encodings coincide, stay distinct
/// names that must not alias; "é" and "É" may be one entry).
pub fn name_class(name: &str) -> String {
    let m = crate::dec::mangle(name, false);
    format!("{}|{}", m.to_uppercase(), name.to_uppercase())
}

/// Reference classification of stream names (C11): Accept = the library must
/// take it and keep it distinct; Reject = must be refused; Unspecified = the
/// statement leaves it to the library ("names the library accepts").
pub fn stream_name_class(name: &str) -> Tri {
    if name.is_empty() {
        return Tri::Reject;
    }
    let units = crate::dec::mangle(name, false).encode_utf16().count();
    if units > 31 {
        return Tri::Reject;
    }
    // Characters the container reserves, the table marker in front, characters
    // inside the ranges the packing itself produces, and control characters:
    // the library may refuse them or accept them (then they must behave).
    let odd = name.chars().enumerate().any(|(i, c)| {
        let u = c as u32;
        matches!(c, '/' | '\\' | ':' | '!') || (i == 0 && c == crate::dec::TABLE_MARK) || (0x3800..0x4840).contains(&u) || u < 0x20
    });
    if odd {
        Tri::Unspecified
    } else {
        Tri::Accept
    }
}

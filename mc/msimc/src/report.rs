//! Common reporting machinery: evidence files, violations, known findings,
//! replay artefacts, exit codes.
//!
//! Exit codes of a check: 0 = property held on everything explored (known
//! findings are printed as `KNOWN-FINDING:` lines), 1 = at least one violation
//! not listed in /verif/known_findings.json, 2 = machinery failure.

use serde_json::{json, Map, Value as J};
use std::collections::BTreeMap;
use std::path::PathBuf;
use std::time::Instant;

pub fn verif_root() -> PathBuf {
    if let Ok(p) = std::env::var("VERIF_ROOT") {
        return PathBuf::from(p);
    }
    // The binary lives in <root>/mc/target/release/msimc.
    let exe = std::env::current_exe().expect("current_exe");
    let mut p = exe.as_path();
    for _ in 0..4 {
        p = p.parent().expect("exe path depth");
    }
    p.to_path_buf()
}

#[derive(Clone, Copy, PartialEq, Eq, Debug)]
pub enum Tier {
    Quick,
    Thorough,
}

impl Tier {
    pub fn as_str(self) -> &'static str {
        match self {
            Tier::Quick => "quick",
            Tier::Thorough => "thorough",
        }
    }
    pub fn thorough(self) -> bool {
        self == Tier::Thorough
    }
}

#[derive(Clone, Debug)]
pub struct Violation {
    /// Stable class identifier used to match known findings and to
    /// de-duplicate: two violations with the same signature are counted as
    /// one finding with several witnesses.
    pub signature: String,
    /// Human readable explanation of this witness.
    pub detail: String,
    /// Self-contained replay description (`msimc replay <file>`).
    pub replay: J,
}

pub struct Report {
    pub property: &'static str,
    pub tier: Tier,
    pub level: &'static str,
    pub start: Instant,
    pub coverage: Map<String, J>,
    pub assumptions: Vec<String>,
    pub violations: Vec<Violation>,
    pub samples: Vec<J>,
    pub notes: Vec<String>,
}

impl Report {
    pub fn new(property: &'static str, tier: Tier, level: &'static str) -> Report {
        Report {
            property,
            tier,
            level,
            start: Instant::now(),
            coverage: Map::new(),
            assumptions: Vec::new(),
            violations: Vec::new(),
            samples: Vec::new(),
            notes: Vec::new(),
        }
    }

    pub fn set<V: Into<J>>(&mut self, key: &str, value: V) {
        self.coverage.insert(key.to_string(), value.into());
    }

    pub fn add<V: Into<i64>>(&mut self, key: &str, value: V) {
        let old = self.coverage.get(key).and_then(|v| v.as_i64()).unwrap_or(0);
        self.coverage.insert(key.to_string(), J::from(old + value.into()));
    }

    pub fn get_i64(&self, key: &str) -> i64 {
        self.coverage.get(key).and_then(|v| v.as_i64()).unwrap_or(0)
    }

    pub fn sample(&mut self, v: J) {
        if self.samples.len() < 12 {
            self.samples.push(v);
        }
    }

    pub fn assume(&mut self, s: &str) {
        self.assumptions.push(s.to_string());
    }

    pub fn violation(&mut self, signature: String, detail: String, replay: J) {
        self.violations.push(Violation { signature, detail, replay });
    }

    pub fn extend(&mut self, vs: Vec<Violation>) {
        self.violations.extend(vs);
    }

    /// Writes the evidence file, prints VIOLATION / KNOWN-FINDING lines and
    /// returns the process exit code.
    pub fn finish(mut self) -> i32 {
        let root = verif_root();
        let known = load_known_findings(&root, self.property);
        // Group by signature, keep first witness (they arrive in
        // deterministic order: callers sort before pushing).
        let mut groups: BTreeMap<String, (usize, Violation)> = BTreeMap::new();
        for v in self.violations.drain(..) {
            groups
                .entry(v.signature.clone())
                .and_modify(|e| e.0 += 1)
                .or_insert((1, v));
        }
        let mut unknown = 0usize;
        let mut known_hit = 0usize;
        let mut finding_list = Vec::new();
        let replay_dir = root.join("replays");
        let _ = std::fs::create_dir_all(&replay_dir);
        let mut n = 0usize;
        for (sig, (count, v)) in groups.iter() {
            let matched = known.iter().find(|k| k.matches(sig));
            if let Some(k) = matched {
                known_hit += 1;
                println!(
                    "KNOWN-FINDING: property={} {} [{}; {} witness(es); e.g. {}]",
                    self.property,
                    k.what,
                    sig,
                    count,
                    one_line(&v.detail, 300)
                );
                finding_list.push(json!({"signature": sig, "known": true, "witnesses": count}));
            } else {
                unknown += 1;
                n += 1;
                let path = replay_dir.join(format!("{}-{}.json", self.property, n));
                let doc = json!({
                    "property": self.property,
                    "signature": sig,
                    "witnesses": count,
                    "detail": v.detail,
                    "replay": v.replay,
                });
                let _ = std::fs::write(&path, serde_json::to_vec_pretty(&doc).unwrap());
                println!(
                    "VIOLATION property={} replay={}",
                    self.property,
                    path.display()
                );
                println!("  signature: {}", sig);
                println!("  witnesses: {}", count);
                println!("  detail: {}", one_line(&v.detail, 1200));
                finding_list.push(json!({"signature": sig, "known": false, "witnesses": count, "replay": path.display().to_string()}));
            }
        }
        // Known findings that did not show up: say so (not an error: a
        // quick tier may not reach all of them).
        let wall = self.start.elapsed().as_secs_f64();
        let mut cov = self.coverage.clone();
        if !cov.contains_key("samples") {
            let mut samples = self.samples.clone();
            if samples.is_empty() {
                // a run cut short by violations: the witnesses are the samples
                for v in self.violations.iter().take(3) {
                    samples.push(json!({"violation": v.signature, "replay": v.replay}));
                }
            }
            if samples.is_empty() {
                samples.push(json!({"note": "no sample recorded"}));
            }
            cov.insert("samples".into(), J::Array(samples));
        }
        cov.insert("findings".into(), J::Array(finding_list));
        cov.insert("known_findings_matched".into(), J::from(known_hit));
        if !self.notes.is_empty() {
            cov.insert("notes".into(), json!(self.notes));
        }
        let seed: i64 = std::env::var("VERIF_SEED").ok().and_then(|s| s.parse().ok()).unwrap_or(0);
        let ev = json!({
            "property_id": self.property,
            "tier": self.tier.as_str(),
            "seed": seed,
            "level": self.level,
            "coverage": J::Object(cov),
            "assumptions": self.assumptions,
            "wall_s": (wall * 1000.0).round() / 1000.0,
            "violations": unknown,
        });
        let ev_dir = root.join("evidence");
        let _ = std::fs::create_dir_all(&ev_dir);
        let ev_path = ev_dir.join(format!("{}.json", self.property));
        if let Err(e) = std::fs::write(&ev_path, serde_json::to_vec_pretty(&ev).unwrap()) {
            eprintln!("MACHINERY: cannot write evidence {}: {}", ev_path.display(), e);
            return 2;
        }
        println!(
            "{} {}: {} unknown violation class(es), {} known finding(s) matched, wall {:.1}s, evidence {}",
            self.property,
            self.tier.as_str(),
            unknown,
            known_hit,
            wall,
            ev_path.display()
        );
        if unknown > 0 {
            1
        } else {
            0
        }
    }
}

pub fn one_line(s: &str, max: usize) -> String {
    let mut out: String = s.chars().map(|c| if c == '\n' { ' ' } else { c }).collect();
    if out.chars().count() > max {
        out = out.chars().take(max).collect::<String>() + "...";
    }
    out
}

pub struct Known {
    pub pattern: String,
    pub what: String,
}

impl Known {
    /// A pattern matches a signature if equal, or — when the pattern ends in
    /// `*` — if it is a prefix.  Patterns are deliberately specific (they
    /// name the monitor, the call and the failing input class).
    pub fn matches(&self, sig: &str) -> bool {
        if let Some(prefix) = self.pattern.strip_suffix('*') {
            sig.starts_with(prefix)
        } else {
            sig == self.pattern
        }
    }
}

pub fn load_known_findings(root: &std::path::Path, property: &str) -> Vec<Known> {
    let path = root.join("known_findings.json");
    let data = match std::fs::read(&path) {
        Ok(d) => d,
        Err(_) => return Vec::new(),
    };
    let doc: J = match serde_json::from_slice(&data) {
        Ok(d) => d,
        Err(e) => {
            eprintln!("MACHINERY: known_findings.json unreadable: {}", e);
            std::process::exit(2);
        }
    };
    let mut out = Vec::new();
    if let Some(list) = doc.get("findings").and_then(|l| l.as_array()) {
        for f in list {
            if f.get("property").and_then(|p| p.as_str()) != Some(property) {
                continue;
            }
            if f.get("status").and_then(|p| p.as_str()) == Some("fixed") {
                continue; // a fixed entry suppresses nothing
            }
            let what = f.get("what").and_then(|p| p.as_str()).unwrap_or("").to_string();
            if let Some(sigs) = f.get("signatures").and_then(|s| s.as_array()) {
                for s in sigs {
                    if let Some(s) = s.as_str() {
                        out.push(Known { pattern: s.to_string(), what: what.clone() });
                    }
                }
            }
        }
    }
    out
}

/// Runs `f`, converting a panic into `Err(message @ location)`.
pub fn catch<T>(f: impl FnOnce() -> T) -> Result<T, String> {
    match std::panic::catch_unwind(std::panic::AssertUnwindSafe(f)) {
        Ok(v) => Ok(v),
        Err(payload) => {
            let msg = if let Some(s) = payload.downcast_ref::<&str>() {
                s.to_string()
            } else if let Some(s) = payload.downcast_ref::<String>() {
                s.clone()
            } else {
                "<non-string panic>".to_string()
            };
            let loc = LAST_PANIC_LOC.with(|l| l.borrow().clone());
            Err(format!("{} @ {}", msg, loc))
        }
    }
}

thread_local! {
    pub static LAST_PANIC_LOC: std::cell::RefCell<String> = std::cell::RefCell::new(String::new());
}

/// Installs a quiet panic hook that records the location of the panic for
/// `catch` instead of printing to stderr.
pub fn install_panic_hook() {
    std::panic::set_hook(Box::new(|info| {
        let loc = info
            .location()
            .map(|l| {
                let f = l.file();
                // registry paths: keep "<crate>-<version>/src/...";
                // the repository's own files: keep "src/..."
                let short = if let Some(i) = f.find("/registry/src/") {
                    let rest = &f[i + "/registry/src/".len()..];
                    match rest.find('/') {
                        Some(j) => rest[j + 1..].to_string(),
                        None => rest.to_string(),
                    }
                } else if let Some(i) = f.rfind("/src/") {
                    f[i + 1..].to_string()
                } else {
                    f.to_string()
                };
                format!("{}:{}", short, l.line())
            })
            .unwrap_or_else(|| "?".to_string());
        LAST_PANIC_LOC.with(|l| *l.borrow_mut() = loc);
    }));
}

/// Strips the line number from a `catch` error so that signatures survive
/// unrelated edits: "msg @ internal/expr.rs:461" -> "internal/expr.rs".
pub fn panic_site(err: &str) -> String {
    match err.rsplit_once(" @ ") {
        Some((_, loc)) => match loc.rsplit_once(':') {
            Some((file, _)) => file.to_string(),
            None => loc.to_string(),
        },
        None => "?".to_string(),
    }
}

//! The full API observation of a live package.

use crate::medium::Medium;
use crate::report::catch;
use crate::spec::ColSpec;
use crate::val::Val;
use serde::{Deserialize, Serialize};
use std::io::Read;
use std::time::UNIX_EPOCH;

pub type Pkg = msi::Package<Medium>;

#[derive(Clone, Debug, PartialEq, Eq, Hash, Serialize, Deserialize)]
pub struct TableSnap {
    pub name: String,
    pub cols: Vec<ColSpec>,
    /// Rows as yielded by `select_rows(Select::table(name))`, or the error.
    pub rows: Result<Vec<Vec<Val>>, String>,
    /// `Rows::len()` before iterating.
    pub reported_len: usize,
}

#[derive(Clone, Debug, PartialEq, Eq, Hash, Default, Serialize, Deserialize)]
pub struct SummarySnap {
    pub codepage: i32,
    pub title: Option<String>,
    pub subject: Option<String>,
    pub author: Option<String>,
    pub comments: Option<String>,
    pub creating_app: Option<String>,
    pub uuid: Option<String>,
    pub word_count: Option<i32>,
    /// 100-ns ticks relative to the Unix epoch (floor)
    pub creation_ticks: Option<i64>,
    pub arch: Option<String>,
    pub languages: Vec<u16>,
}

#[derive(Clone, Debug, PartialEq, Eq, Hash, Serialize, Deserialize)]
pub struct Snapshot {
    pub ptype: u8,
    pub db_codepage: i32,
    pub tables: Vec<TableSnap>,
    /// (name, content or error), sorted by name (listing order is unspecified)
    pub streams: Vec<(String, Result<Vec<u8>, String>)>,
    pub has_signature: bool,
    pub summary: SummarySnap,
}

pub fn ptype_code(t: msi::PackageType) -> u8 {
    match t {
        msi::PackageType::Installer => 0,
        msi::PackageType::Patch => 1,
        msi::PackageType::Transform => 2,
    }
}

pub fn ptype_of(code: u8) -> msi::PackageType {
    match code {
        0 => msi::PackageType::Installer,
        1 => msi::PackageType::Patch,
        _ => msi::PackageType::Transform,
    }
}

pub fn summary_snap(s: &msi::SummaryInfo) -> SummarySnap {
    SummarySnap {
        codepage: s.codepage().id(),
        title: s.title().map(|x| x.to_string()),
        subject: s.subject().map(|x| x.to_string()),
        author: s.author().map(|x| x.to_string()),
        comments: s.comments().map(|x| x.to_string()),
        creating_app: s.creating_application().map(|x| x.to_string()),
        uuid: s.uuid().map(|u| u.hyphenated().to_string()),
        word_count: s.word_count(),
        creation_ticks: s.creation_time().map(|t| match t.duration_since(UNIX_EPOCH) {
            Ok(d) => (d.as_nanos() / 100) as i64,
            Err(e) => -(((e.duration().as_nanos() + 99) / 100) as i64),
        }),
        arch: s.arch().map(|x| x.to_string()),
        languages: s.languages().iter().map(|l| l.code()).collect(),
    }
}

/// Whether `snapshot` also cross-checks the row accessors (by position, by
/// name, announced sizes).  Switched off for deliberately corrupted files
/// (C09), where e.g. two columns may legitimately carry one name.
pub static ACCESSOR_CHECKS: std::sync::atomic::AtomicBool = std::sync::atomic::AtomicBool::new(true);

fn snapshot_inner(p: &mut Pkg) -> Snapshot {
    let accessor_checks = ACCESSOR_CHECKS.load(std::sync::atomic::Ordering::Relaxed);
    let ptype = ptype_code(p.package_type());
    let db_codepage = p.database_codepage().id();
    let mut metas: Vec<(String, Vec<ColSpec>)> = p
        .tables()
        .map(|t| (t.name().to_string(), t.columns().iter().map(ColSpec::observed).collect()))
        .collect();
    metas.sort();
    if accessor_checks {
        // tables(), has_table() and get_table() describe the same set
        for (name, cols) in &metas {
            if !p.has_table(name) {
                panic!("ACCESSORS DISAGREE: tables() lists {:?} but has_table says no", name);
            }
            match p.get_table(name) {
                None => panic!("ACCESSORS DISAGREE: tables() lists {:?} but get_table returns None", name),
                Some(t) => {
                    let got: Vec<ColSpec> = t.columns().iter().map(ColSpec::observed).collect();
                    if &got != cols || t.name() != name {
                        panic!("ACCESSORS DISAGREE: get_table({:?}) describes {:?} {:?}, tables() {:?}", name, t.name(), got, cols);
                    }
                    for (i, c) in cols.iter().enumerate() {
                        if !t.has_column(&c.name) {
                            panic!("ACCESSORS DISAGREE: table {:?}: has_column({:?}) is false", name, c.name);
                        }
                        let keys: Vec<usize> = t.primary_key_indices();
                        if keys.contains(&i) != c.key {
                            panic!("ACCESSORS DISAGREE: table {:?}: primary_key_indices() = {:?} but column {} is_primary_key = {}", name, keys, i, c.key);
                        }
                    }
                }
            }
        }
        if p.has_table("No_Such_Table_") || p.get_table("No_Such_Table_").is_some() {
            panic!("ACCESSORS DISAGREE: has_table / get_table answer for a table that is not listed");
        }
    }
    let mut tables = Vec::new();
    for (name, cols) in metas {
        let (rows, reported_len) = match p.select_rows(msi::Select::table(name.clone())) {
            Ok(rows) => {
                let n = rows.len();
                // every way of reaching the same cells must agree: the
                // iterator's announced sizes, the rows' own column lists,
                // cells by position and by column name
                let hint = rows.size_hint();
                let rcols: Vec<String> = rows.columns().iter().map(|c| c.name().to_string()).collect();
                let want_cols: Vec<String> = cols.iter().map(|c| c.name.clone()).collect();
                if accessor_checks && rcols != want_cols {
                    panic!("ACCESSORS DISAGREE: table {} has columns {:?} but the rows of a select on it announce {:?}", name, want_cols, rcols);
                }
                let mut v: Vec<Vec<Val>> = Vec::new();
                for row in rows {
                    let by_pos: Vec<Val> = (0..row.len()).map(|i| Val::from_msi(&row[i])).collect();
                    if !accessor_checks {
                        v.push(by_pos);
                        continue;
                    }
                    if row.len() != want_cols.len() {
                        panic!("ACCESSORS DISAGREE: a row of table {} has {} cells, the table {} columns", name, row.len(), want_cols.len());
                    }
                    let row_cols: Vec<String> = row.columns().iter().map(|c| c.name().to_string()).collect();
                    if row_cols != want_cols {
                        panic!("ACCESSORS DISAGREE: a row of table {} lists columns {:?}, the table {:?}", name, row_cols, want_cols);
                    }
                    for (i, c) in want_cols.iter().enumerate() {
                        if !row.has_column(c) {
                            panic!("ACCESSORS DISAGREE: row of table {}: has_column({:?}) is false", name, c);
                        }
                        let by_name = Val::from_msi(&row[c.as_str()]);
                        if by_name != by_pos[i] {
                            panic!("ACCESSORS DISAGREE: row of table {}: cell {} is {} by position and {} by the name {:?}", name, i, by_pos[i].show(), by_name.show(), c);
                        }
                    }
                    if row.has_column("no such column") {
                        panic!("ACCESSORS DISAGREE: row of table {}: has_column of a name that is not a column is true", name);
                    }
                    v.push(by_pos);
                }
                if accessor_checks && (hint.0 > v.len() || hint.1.map(|h| h < v.len()).unwrap_or(false)) {
                    panic!("ACCESSORS DISAGREE: select on table {} announced size_hint {:?} and yielded {} rows", name, hint, v.len());
                }
                (Ok(v), n)
            }
            Err(e) => (Err(format!("{:?}: {}", e.kind(), e)), 0),
        };
        tables.push(TableSnap { name, cols, rows, reported_len });
    }
    let mut names: Vec<String> = p.streams().collect();
    names.sort();
    let mut streams = Vec::new();
    for n in names {
        let content = match p.read_stream(&n) {
            Ok(mut r) => {
                let mut buf = Vec::new();
                match r.read_to_end(&mut buf) {
                    Ok(_) => Ok(buf),
                    Err(e) => Err(format!("read: {:?}", e.kind())),
                }
            }
            Err(e) => Err(format!("open: {:?}", e.kind())),
        };
        // the same bytes through the other ways of reading: seek to the
        // middle and read the rest in small pieces; seek from the end
        if let (true, Ok(all)) = (accessor_checks, &content) {
            use std::io::{Seek, SeekFrom};
            if let Ok(mut r) = p.read_stream(&n) {
                let mid = all.len() / 2;
                let pos = r.seek(SeekFrom::Start(mid as u64)).unwrap_or(u64::MAX);
                let mut rest = Vec::new();
                let mut chunk = [0u8; 7];
                loop {
                    match r.read(&mut chunk) {
                        Ok(0) => break,
                        Ok(k) => rest.extend_from_slice(&chunk[..k]),
                        Err(e) => panic!("ACCESSORS DISAGREE: stream {:?}: small reads after a seek fail: {}", n, e),
                    }
                }
                if pos != mid as u64 || rest != all[mid..] {
                    panic!("ACCESSORS DISAGREE: stream {:?} ({} bytes): seek to {} returned {} and then {} bytes were read that {} the second half", n, all.len(), mid, pos, rest.len(), if rest == all[mid..] { "equal" } else { "differ from" });
                }
                if !all.is_empty() {
                    let p2 = r.seek(SeekFrom::End(-1)).unwrap_or(u64::MAX);
                    let mut last = [0u8; 1];
                    let k = r.read(&mut last).unwrap_or(0);
                    if p2 != all.len() as u64 - 1 || k != 1 || last[0] != all[all.len() - 1] {
                        panic!("ACCESSORS DISAGREE: stream {:?}: seek(End(-1)) returned {} (length {}), then read {} byte(s)", n, p2, all.len(), k);
                    }
                }
            }
        }
        streams.push((n, content));
    }
    let has_signature = p.has_digital_signature();
    let summary = summary_snap(p.summary_info());
    Snapshot { ptype, db_codepage, tables, streams, has_signature, summary }
}

/// Takes the snapshot; a panic inside the library is reported as Err.
pub fn snapshot(p: &mut Pkg) -> Result<Snapshot, String> {
    catch(|| snapshot_inner(p))
}

impl Snapshot {
    /// Identifies `""` with null in every cell: what a reopened package may
    /// legitimately report for a snapshot taken before closing.
    pub fn normalized(&self) -> Snapshot {
        let mut s = self.clone();
        for t in s.tables.iter_mut() {
            // The "valid" (0x100) and "non-binary" (0x400) bits of a column's
            // type word are not covered by any property (the library's own
            // comments call them speculative): ignore them.
            if t.name == "_Columns" {
                if let Ok(rows) = t.rows.as_mut() {
                    for r in rows.iter_mut() {
                        if let Some(Val::Int(n)) = r.get_mut(3) {
                            *n &= !0x500;
                        }
                    }
                }
            }
            if let Ok(rows) = t.rows.as_mut() {
                for r in rows.iter_mut() {
                    for c in r.iter_mut() {
                        *c = c.norm_empty();
                    }
                }
            }
        }
        s
    }

    pub fn table(&self, name: &str) -> Option<&TableSnap> {
        self.tables.iter().find(|t| t.name == name)
    }

    /// Describes the first difference, or None if equal.
    pub fn diff(&self, other: &Snapshot) -> Option<String> {
        if self == other {
            return None;
        }
        if self.ptype != other.ptype {
            return Some(format!("package type {} vs {}", self.ptype, other.ptype));
        }
        if self.db_codepage != other.db_codepage {
            return Some(format!("database code page {} vs {}", self.db_codepage, other.db_codepage));
        }
        let an: Vec<&String> = self.tables.iter().map(|t| &t.name).collect();
        let bn: Vec<&String> = other.tables.iter().map(|t| &t.name).collect();
        if an != bn {
            return Some(format!("table list {:?} vs {:?}", an, bn));
        }
        for (a, b) in self.tables.iter().zip(other.tables.iter()) {
            if a.cols != b.cols {
                for (x, y) in a.cols.iter().zip(b.cols.iter()) {
                    if x != y {
                        return Some(format!("table {} column {:?} vs {:?}", a.name, x, y));
                    }
                }
                return Some(format!("table {} has {} vs {} columns", a.name, a.cols.len(), b.cols.len()));
            }
            if a.rows != b.rows {
                return Some(format!("table {} rows {} vs {}", a.name, show_rows(&a.rows), show_rows(&b.rows)));
            }
            if a.reported_len != b.reported_len {
                return Some(format!("table {} reported length {} vs {}", a.name, a.reported_len, b.reported_len));
            }
        }
        if self.streams != other.streams {
            let f = |s: &Vec<(String, Result<Vec<u8>, String>)>| -> String {
                s.iter()
                    .map(|(n, c)| match c {
                        Ok(b) => format!("{:?}[{} bytes, sum {}]", n, b.len(), b.iter().map(|x| *x as u64).sum::<u64>()),
                        Err(e) => format!("{:?}[ERR {}]", n, e),
                    })
                    .collect::<Vec<_>>()
                    .join(", ")
            };
            return Some(format!("streams {} vs {}", f(&self.streams), f(&other.streams)));
        }
        if self.has_signature != other.has_signature {
            return Some(format!("has_digital_signature {} vs {}", self.has_signature, other.has_signature));
        }
        if self.summary != other.summary {
            return Some(format!("summary {:?} vs {:?}", self.summary, other.summary));
        }
        Some("snapshots differ".into())
    }
}

pub fn show_rows(r: &Result<Vec<Vec<Val>>, String>) -> String {
    match r {
        Err(e) => format!("ERR({})", e),
        Ok(rows) => {
            let mut s = String::from("[");
            for (i, row) in rows.iter().enumerate() {
                if i > 0 {
                    s.push_str(", ");
                }
                if i >= 8 {
                    s.push_str(&format!("... {} rows", rows.len()));
                    break;
                }
                s.push('(');
                s.push_str(&row.iter().map(|v| {
                    let t = v.show();
                    if t.len() > 40 { format!("{}..[{} chars]", &t.chars().take(20).collect::<String>(), t.chars().count()) } else { t }
                }).collect::<Vec<_>>().join(","));
                s.push(')');
            }
            s.push(']');
            s
        }
    }
}

//! The full API observation of a live package.

use crate::medium::Medium;
use crate::report::catch;
use crate::spec::ColSpec;
use crate::val::Val;
use serde::{Deserialize, Serialize};
use std::io::Read;
use std::time::UNIX_EPOCH;

pub type Pkg = msi::Package<Medium>;

#[derive(Clone, Debug, PartialEq, Eq, Hash, Serialize, Deserialize)]
pub struct TableSnap {
    pub name: String,
    pub cols: Vec<ColSpec>,
    /// Rows as yielded by `select_rows(Select::table(name))`, or the error.
    pub rows: Result<Vec<Vec<Val>>, String>,
    /// `Rows::len()` before iterating.
    pub reported_len: usize,
}

#[derive(Clone, Debug, PartialEq, Eq, Hash, Default, Serialize, Deserialize)]
pub struct SummarySnap {
    pub codepage: i32,
    pub title: Option<String>,
    pub subject: Option<String>,
    pub author: Option<String>,
    pub comments: Option<String>,
    pub creating_app: Option<String>,
    pub uuid: Option<String>,
    pub word_count: Option<i32>,
    /// 100-ns ticks relative to the Unix epoch (floor)
    pub creation_ticks: Option<i64>,
    pub arch: Option<String>,
    pub languages: Vec<u16>,
}

#[derive(Clone, Debug, PartialEq, Eq, Hash, Serialize, Deserialize)]
pub struct Snapshot {
    pub ptype: u8,
    pub db_codepage: i32,
    pub tables: Vec<TableSnap>,
    /// (name, content or error), sorted by name (listing order is unspecified)
    pub streams: Vec<(String, Result<Vec<u8>, String>)>,
    pub has_signature: bool,
    pub summary: SummarySnap,
}

pub fn ptype_code(t: msi::PackageType) -> u8 {
    match t {
        msi::PackageType::Installer => 0,
        msi::PackageType::Patch => 1,
        msi::PackageType::Transform => 2,
    }
}

pub fn ptype_of(code: u8) -> msi::PackageType {
    match code {
        0 => msi::PackageType::Installer,
        1 => msi::PackageType::Patch,
        _ => msi::PackageType::Transform,
    }
}

pub fn summary_snap(s: &msi::SummaryInfo) -> SummarySnap {
    SummarySnap {
        codepage: s.codepage().id(),
        title: s.title().map(|x| x.to_string()),
        subject: s.subject().map(|x| x.to_string()),
        author: s.author().map(|x| x.to_string()),
        comments: s.comments().map(|x| x.to_string()),
        creating_app: s.creating_application().map(|x| x.to_string()),
        uuid: s.uuid().map(|u| u.hyphenated().to_string()),
        word_count: s.word_count(),
        creation_ticks: s.creation_time().map(|t| match t.duration_since(UNIX_EPOCH) {
            Ok(d) => (d.as_nanos() / 100) as i64,
            Err(e) => -(((e.duration().as_nanos() + 99) / 100) as i64),
        }),
        arch: s.arch().map(|x| x.to_string()),
        languages: s.languages().iter().map(|l| l.code()).collect(),
    }
}

fn snapshot_inner(p: &mut Pkg) -> Snapshot {
    let ptype = ptype_code(p.package_type());
    let db_codepage = p.database_codepage().id();
    let mut metas: Vec<(String, Vec<ColSpec>)> = p
        .tables()
        .map(|t| (t.name().to_string(), t.columns().iter().map(ColSpec::observed).collect()))
        .collect();
    metas.sort();
    let mut tables = Vec::new();
    for (name, cols) in metas {
        let (rows, reported_len) = match p.select_rows(msi::Select::table(name.clone())) {
            Ok(rows) => {
                let n = rows.len();
                let v: Vec<Vec<Val>> = rows
                    .map(|row| (0..row.len()).map(|i| Val::from_msi(&row[i])).collect())
                    .collect();
                (Ok(v), n)
            }
            Err(e) => (Err(format!("{:?}: {}", e.kind(), e)), 0),
        };
        tables.push(TableSnap { name, cols, rows, reported_len });
    }
    let mut names: Vec<String> = p.streams().collect();
    names.sort();
    let mut streams = Vec::new();
    for n in names {
        let content = match p.read_stream(&n) {
            Ok(mut r) => {
                let mut buf = Vec::new();
                match r.read_to_end(&mut buf) {
                    Ok(_) => Ok(buf),
                    Err(e) => Err(format!("read: {:?}", e.kind())),
                }
            }
            Err(e) => Err(format!("open: {:?}", e.kind())),
        };
        streams.push((n, content));
    }
    let has_signature = p.has_digital_signature();
    let summary = summary_snap(p.summary_info());
    Snapshot { ptype, db_codepage, tables, streams, has_signature, summary }
}

/// Takes the snapshot; a panic inside the library is reported as Err.
pub fn snapshot(p: &mut Pkg) -> Result<Snapshot, String> {
    catch(|| snapshot_inner(p))
}

impl Snapshot {
    /// Identifies `""` with null in every cell: what a reopened package may
    /// legitimately report for a snapshot taken before closing.
    pub fn normalized(&self) -> Snapshot {
        let mut s = self.clone();
        for t in s.tables.iter_mut() {
            // The "valid" (0x100) and "non-binary" (0x400) bits of a column's
            // type word are not covered by any property (the library's own
            // comments call them speculative): ignore them.
            if t.name == "_Columns" {
                if let Ok(rows) = t.rows.as_mut() {
                    for r in rows.iter_mut() {
                        if let Some(Val::Int(n)) = r.get_mut(3) {
                            *n &= !0x500;
                        }
                    }
                }
            }
            if let Ok(rows) = t.rows.as_mut() {
                for r in rows.iter_mut() {
                    for c in r.iter_mut() {
                        *c = c.norm_empty();
                    }
                }
            }
        }
        s
    }

    pub fn table(&self, name: &str) -> Option<&TableSnap> {
        self.tables.iter().find(|t| t.name == name)
    }

    /// Describes the first difference, or None if equal.
    pub fn diff(&self, other: &Snapshot) -> Option<String> {
        if self == other {
            return None;
        }
        if self.ptype != other.ptype {
            return Some(format!("package type {} vs {}", self.ptype, other.ptype));
        }
        if self.db_codepage != other.db_codepage {
            return Some(format!("database code page {} vs {}", self.db_codepage, other.db_codepage));
        }
        let an: Vec<&String> = self.tables.iter().map(|t| &t.name).collect();
        let bn: Vec<&String> = other.tables.iter().map(|t| &t.name).collect();
        if an != bn {
            return Some(format!("table list {:?} vs {:?}", an, bn));
        }
        for (a, b) in self.tables.iter().zip(other.tables.iter()) {
            if a.cols != b.cols {
                for (x, y) in a.cols.iter().zip(b.cols.iter()) {
                    if x != y {
                        return Some(format!("table {} column {:?} vs {:?}", a.name, x, y));
                    }
                }
                return Some(format!("table {} has {} vs {} columns", a.name, a.cols.len(), b.cols.len()));
            }
            if a.rows != b.rows {
                return Some(format!("table {} rows {} vs {}", a.name, show_rows(&a.rows), show_rows(&b.rows)));
            }
            if a.reported_len != b.reported_len {
                return Some(format!("table {} reported length {} vs {}", a.name, a.reported_len, b.reported_len));
            }
        }
        if self.streams != other.streams {
            let f = |s: &Vec<(String, Result<Vec<u8>, String>)>| -> String {
                s.iter()
                    .map(|(n, c)| match c {
                        Ok(b) => format!("{:?}[{} bytes, sum {}]", n, b.len(), b.iter().map(|x| *x as u64).sum::<u64>()),
                        Err(e) => format!("{:?}[ERR {}]", n, e),
                    })
                    .collect::<Vec<_>>()
                    .join(", ")
            };
            return Some(format!("streams {} vs {}", f(&self.streams), f(&other.streams)));
        }
        if self.has_signature != other.has_signature {
            return Some(format!("has_digital_signature {} vs {}", self.has_signature, other.has_signature));
        }
        if self.summary != other.summary {
            return Some(format!("summary {:?} vs {:?}", self.summary, other.summary));
        }
        Some("snapshots differ".into())
    }
}

pub fn show_rows(r: &Result<Vec<Vec<Val>>, String>) -> String {
    match r {
        Err(e) => format!("ERR({})", e),
        Ok(rows) => {
            let mut s = String::from("[");
            for (i, row) in rows.iter().enumerate() {
                if i > 0 {
                    s.push_str(", ");
                }
                if i >= 8 {
                    s.push_str(&format!("... {} rows", rows.len()));
                    break;
                }
                s.push('(');
                s.push_str(&row.iter().map(|v| {
                    let t = v.show();
                    if t.len() > 40 { format!("{}..[{} chars]", &t.chars().take(20).collect::<String>(), t.chars().count()) } else { t }
                }).collect::<Vec<_>>().join(","));
                s.push(')');
            }
            s.push(']');
            s
        }
    }
}

//! Schema descriptions independent of msi::Column, and the three-valued
//! reference for "is this value valid for this column" (DESIGN.md appendix B).

use crate::val::Val;
use serde::{Deserialize, Serialize};
use std::str::FromStr;

#[derive(Clone, Debug, PartialEq, Eq, Hash, PartialOrd, Ord, Serialize, Deserialize)]
pub enum Ty {
    I16,
    I32,
    Str(usize),
}

#[derive(Clone, Debug, PartialEq, Eq, Hash, PartialOrd, Ord, Serialize, Deserialize)]
pub struct ColSpec {
    pub name: String,
    pub ty: Ty,
    pub nullable: bool,
    pub key: bool,
    pub localizable: bool,
    pub range: Option<(i32, i32)>,
    pub fk: Option<(String, i32)>,
    pub category: Option<String>,
    pub enums: Vec<String>,
}

impl ColSpec {
    pub fn new(name: &str, ty: Ty) -> ColSpec {
        ColSpec {
            name: name.to_string(),
            ty,
            nullable: false,
            key: false,
            localizable: false,
            range: None,
            fk: None,
            category: None,
            enums: vec![],
        }
    }
    pub fn key(mut self) -> ColSpec {
        self.key = true;
        self
    }
    pub fn nullable(mut self) -> ColSpec {
        self.nullable = true;
        self
    }
    pub fn localizable(mut self) -> ColSpec {
        self.localizable = true;
        self
    }
    pub fn range(mut self, lo: i32, hi: i32) -> ColSpec {
        self.range = Some((lo, hi));
        self
    }
    pub fn category(mut self, c: &str) -> ColSpec {
        self.category = Some(c.to_string());
        self
    }
    pub fn enums(mut self, e: &[&str]) -> ColSpec {
        self.enums = e.iter().map(|s| s.to_string()).collect();
        self
    }
    pub fn fk(mut self, t: &str, c: i32) -> ColSpec {
        self.fk = Some((t.to_string(), c));
        self
    }

    pub fn to_msi(&self) -> msi::Column {
        let mut b = msi::Column::build(self.name.clone());
        if self.nullable {
            b = b.nullable();
        }
        if self.key {
            b = b.primary_key();
        }
        if self.localizable {
            b = b.localizable();
        }
        if let Some((lo, hi)) = self.range {
            b = b.range(lo, hi);
        }
        if let Some((t, c)) = &self.fk {
            b = b.foreign_key(t, *c);
        }
        if let Some(c) = &self.category {
            b = b.category(msi::Category::from_str(c).expect("category name"));
        }
        if !self.enums.is_empty() {
            let v: Vec<&str> = self.enums.iter().map(|s| s.as_str()).collect();
            b = b.enum_values(&v);
        }
        match self.ty {
            Ty::I16 => b.int16(),
            Ty::I32 => b.int32(),
            Ty::Str(w) => b.string(w),
        }
    }

    /// What the public getters of a column report (the foreign key has no
    /// public getter).
    pub fn observed(c: &msi::Column) -> ColSpec {
        ColSpec {
            name: c.name().to_string(),
            ty: match c.coltype() {
                msi::ColumnType::Int16 => Ty::I16,
                msi::ColumnType::Int32 => Ty::I32,
                msi::ColumnType::Str(w) => Ty::Str(w),
            },
            nullable: c.is_nullable(),
            key: c.is_primary_key(),
            localizable: c.is_localizable(),
            range: c.value_range(),
            fk: None,
            category: c.category().map(|c| c.to_string()),
            enums: c.enum_values().map(|v| v.to_vec()).unwrap_or_default(),
        }
    }

    pub fn without_fk(&self) -> ColSpec {
        let mut c = self.clone();
        c.fk = None;
        c.category = c.category.map(|x| canon_category(&x));
        c
    }

    /// The 16-bit type word of the `_Columns` catalog (format knowledge,
    /// appendix A): width | 0x100 valid | 0x200 localizable | 0x400 non-binary
    /// (2-byte integers and text; clear for 4-byte integers and binary
    /// objects) | 0x800 string | 0x1000 nullable | 0x2000 key.
    pub fn type_word(&self) -> i32 {
        let mut w = 0x100;
        match self.ty {
            Ty::I16 => w |= 2 | 0x400,
            Ty::I32 => w |= 4,
            Ty::Str(n) => {
                w |= 0x800 | (n as i32);
                let binary = n == 0 && self.category.as_deref() == Some("Binary");
                if !binary {
                    w |= 0x400;
                }
            }
        }
        if self.localizable {
            w |= 0x200;
        }
        if self.nullable {
            w |= 0x1000;
        }
        if self.key {
            w |= 0x2000;
        }
        w
    }

    /// Byte width of a cell in a table stream.
    pub fn cell_width(&self, long_refs: bool) -> usize {
        match self.ty {
            Ty::I16 => 2,
            Ty::I32 => 4,
            Ty::Str(_) => {
                if long_refs {
                    3
                } else {
                    2
                }
            }
        }
    }
}

/// The library's own spelling of a category name (so that a change of
/// spelling in the library is not mistaken for a change of category).
pub fn canon_category(name: &str) -> String {
    match msi::Category::from_str(name) {
        Ok(c) => c.to_string(),
        Err(_) => name.to_string(),
    }
}

#[derive(Clone, Copy, Debug, PartialEq, Eq)]
pub enum Tri {
    Accept,
    Reject,
    Unspecified,
}

fn is_ident(s: &str) -> Tri {
    // [A-Za-z_][A-Za-z0-9_.]*
    let mut chars = s.chars();
    let first = match chars.next() {
        None => return Tri::Reject,
        Some(c) => c,
    };
    let mut non_ascii = false;
    if first.is_ascii() {
        if !(first.is_ascii_alphabetic() || first == '_') {
            return Tri::Reject;
        }
    } else {
        non_ascii = true;
    }
    for c in chars {
        if c.is_ascii() {
            if !(c.is_ascii_alphanumeric() || c == '_' || c == '.') {
                return Tri::Reject;
            }
        } else {
            non_ascii = true;
        }
    }
    if non_ascii {
        // the docs say "alphanumerics"; whether non-ASCII letters count is not
        // stated
        if s.chars().all(|c| c.is_ascii() || c.is_alphanumeric()) {
            Tri::Unspecified
        } else {
            Tri::Reject
        }
    } else {
        Tri::Accept
    }
}

fn int_text(s: &str, min: i64, max: i64) -> Tri {
    // canonical: -?(0|[1-9][0-9]*), not "-0"
    let (neg, digits) = match s.strip_prefix('-') {
        Some(r) => (true, r),
        None => match s.strip_prefix('+') {
            Some(r) => {
                // leading '+': unspecified if the rest is a plain number
                return if !r.is_empty() && r.chars().all(|c| c.is_ascii_digit()) { Tri::Unspecified } else { Tri::Reject };
            }
            None => (false, s),
        },
    };
    if digits.is_empty() || !digits.chars().all(|c| c.is_ascii_digit()) {
        return Tri::Reject;
    }
    // value (saturating)
    let mut v: i64 = 0;
    for c in digits.chars() {
        v = v.saturating_mul(10).saturating_add(c as i64 - '0' as i64);
        if v > (1 << 40) {
            break;
        }
    }
    let v = if neg { -v } else { v };
    if v < min - 1 || v > max {
        return Tri::Reject;
    }
    if v == min - 1 {
        return Tri::Unspecified; // the most negative two's complement value
    }
    let leading_zero = digits.len() > 1 && digits.starts_with('0');
    if leading_zero || (neg && v == 0) {
        return Tri::Unspecified;
    }
    Tri::Accept
}

fn u16_part(p: &str) -> Tri {
    if p.is_empty() {
        return Tri::Reject;
    }
    let body = p.strip_prefix('+').unwrap_or(p);
    if body.is_empty() || !body.chars().all(|c| c.is_ascii_digit()) {
        return Tri::Reject;
    }
    let mut v: u64 = 0;
    for c in body.chars() {
        v = v.saturating_mul(10).saturating_add(c as u64 - '0' as u64);
        if v > (1 << 40) {
            break;
        }
    }
    if v > 65535 {
        return Tri::Reject;
    }
    if p.starts_with('+') || (body.len() > 1 && body.starts_with('0')) {
        return Tri::Unspecified;
    }
    Tri::Accept
}

fn all_of(parts: impl Iterator<Item = Tri>) -> Tri {
    let mut r = Tri::Accept;
    for p in parts {
        match p {
            Tri::Reject => return Tri::Reject,
            Tri::Unspecified => r = Tri::Unspecified,
            Tri::Accept => {}
        }
    }
    r
}

/// Three-valued reference for `Category::validate`, from the doc comments in
/// category.rs (see DESIGN.md appendix B).
pub fn category_accepts(cat: &str, s: &str) -> Tri {
    match cat {
        "UpperCase" => {
            if s.chars().any(|c| c.is_ascii_lowercase()) {
                Tri::Reject
            } else if s.chars().any(|c| !c.is_ascii() && c.is_lowercase()) {
                Tri::Unspecified
            } else {
                Tri::Accept
            }
        }
        "LowerCase" => {
            if s.chars().any(|c| c.is_ascii_uppercase()) {
                Tri::Reject
            } else if s.chars().any(|c| !c.is_ascii() && c.is_uppercase()) {
                Tri::Unspecified
            } else {
                Tri::Accept
            }
        }
        "Integer" => int_text(s, -32767, 32767),
        "DoubleInteger" => int_text(s, -2147483647, 2147483647),
        "Identifier" => is_ident(s),
        "Property" => match s.strip_prefix('%') {
            Some(r) => is_ident(r),
            None => is_ident(s),
        },
        "GUID" | "Guid" => {
            let b = s.as_bytes();
            let ok = b.len() == 38
                && b[0] == b'{'
                && b[37] == b'}'
                && b[1..37].iter().enumerate().all(|(i, c)| {
                    if [8usize, 13, 18, 23].contains(&i) {
                        *c == b'-'
                    } else {
                        c.is_ascii_digit() || (b'A'..=b'F').contains(c)
                    }
                });
            if ok {
                Tri::Accept
            } else {
                Tri::Reject
            }
        }
        "Version" => {
            let parts: Vec<&str> = s.split('.').collect();
            if parts.len() > 4 {
                return Tri::Reject;
            }
            all_of(parts.iter().map(|p| u16_part(p)))
        }
        "Language" => {
            if s.is_empty() {
                return Tri::Reject;
            }
            // parts > 65535: the docs say "decimal language ID numbers";
            // ids are 16-bit, but the text does not say so: unspecified
            all_of(s.split(',').map(|p| {
                if p.is_empty() {
                    return Tri::Reject;
                }
                let body = p.strip_prefix('+').unwrap_or(p);
                if body.is_empty() || !body.chars().all(|c| c.is_ascii_digit()) {
                    return Tri::Reject;
                }
                match u16_part(p) {
                    Tri::Reject => Tri::Unspecified, // numeric but > 65535
                    t => t,
                }
            }))
        }
        "Cabinet" => {
            if let Some(r) = s.strip_prefix('#') {
                return is_ident(r);
            }
            if s.is_empty() {
                return Tri::Reject;
            }
            if !s.is_ascii() {
                return Tri::Unspecified;
            }
            let dots = s.matches('.').count();
            if dots > 1 {
                return Tri::Unspecified;
            }
            let (base, ext) = match s.split_once('.') {
                Some((b, e)) => (b, Some(e)),
                None => (s, None),
            };
            if base.is_empty() || base.len() > 8 {
                return Tri::Reject;
            }
            if let Some(e) = ext {
                if e.len() > 3 {
                    return Tri::Reject;
                }
                if e.is_empty() {
                    return Tri::Unspecified;
                }
            }
            let plain = |x: &str| x.chars().all(|c| c.is_ascii_alphanumeric() || c == '_' || c == '-');
            if plain(base) && ext.map(plain).unwrap_or(true) {
                Tri::Accept
            } else {
                Tri::Unspecified
            }
        }
        // Text and the categories for which the statement lists no grammar:
        // every string is valid
        _ => Tri::Accept,
    }
}

impl ColSpec {
    /// Three-valued reference for `Column::is_valid_value`.
    pub fn accepts(&self, v: &Val) -> Tri {
        match v {
            Val::Null => {
                if self.nullable {
                    Tri::Accept
                } else {
                    Tri::Reject
                }
            }
            Val::Int(n) => {
                let n = *n as i64;
                let (lo, hi) = match self.ty {
                    Ty::I16 => (-32767i64, 32767i64),
                    Ty::I32 => (-2147483647i64, 2147483647i64),
                    Ty::Str(_) => return Tri::Reject,
                };
                if n < lo || n > hi {
                    return Tri::Reject;
                }
                if let Some((a, b)) = self.range {
                    if n < a as i64 || n > b as i64 {
                        return Tri::Reject;
                    }
                }
                Tri::Accept
            }
            Val::Str(s) => {
                let w = match self.ty {
                    Ty::Str(w) => w,
                    _ => return Tri::Reject,
                };
                if w != 0 && s.chars().count() > w {
                    return Tri::Reject;
                }
                if !self.enums.is_empty() && !self.enums.contains(s) {
                    return Tri::Reject;
                }
                match &self.category {
                    None => Tri::Accept,
                    Some(c) => match c.as_str() {
                        "Text" => Tri::Accept,
                        c => category_accepts(c, s),
                    },
                }
            }
        }
    }
}

pub const ALL_CATEGORIES: [&str; 26] = [
    "Text",
    "UpperCase",
    "LowerCase",
    "Integer",
    "DoubleInteger",
    "TimeDate",
    "Identifier",
    "Property",
    "Filename",
    "WildCardFilename",
    "Path",
    "Paths",
    "AnyPath",
    "DefaultDir",
    "RegPath",
    "Formatted",
    "FormattedSDDLText",
    "Template",
    "Condition",
    "GUID",
    "Version",
    "Language",
    "Binary",
    "CustomSource",
    "Cabinet",
    "Shortcut",
];

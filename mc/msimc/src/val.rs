//! Reference value and expression model (independent of msi::Expr):
//! own AST, own evaluator written from the doc comments of expr.rs, converter
//! to msi::Expr through the public constructors only, and a precedence
//! parser for the text form (C19).

use serde::{Deserialize, Serialize};
use std::collections::BTreeSet;

#[derive(Clone, Debug, PartialEq, Eq, Hash, PartialOrd, Ord, Serialize, Deserialize)]
pub enum Val {
    Null,
    Int(i32),
    Str(String),
}

impl Val {
    pub fn s(x: &str) -> Val {
        Val::Str(x.to_string())
    }
    pub fn truthy(&self) -> bool {
        match self {
            Val::Null => false,
            Val::Int(n) => *n != 0,
            Val::Str(s) => !s.is_empty(),
        }
    }
    pub fn to_msi(&self) -> msi::Value {
        match self {
            Val::Null => msi::Value::Null,
            Val::Int(n) => msi::Value::Int(*n),
            Val::Str(s) => msi::Value::Str(s.clone()),
        }
    }
    pub fn from_msi(v: &msi::Value) -> Val {
        match v {
            msi::Value::Null => Val::Null,
            msi::Value::Int(n) => Val::Int(*n),
            msi::Value::Str(s) => Val::Str(s.clone()),
        }
    }
    /// The file format has a single value for the empty string and null.
    pub fn norm_empty(&self) -> Val {
        match self {
            Val::Str(s) if s.is_empty() => Val::Null,
            v => v.clone(),
        }
    }
    pub fn show(&self) -> String {
        match self {
            Val::Null => "NULL".into(),
            Val::Int(n) => n.to_string(),
            Val::Str(s) => format!("{:?}", s),
        }
    }
}

#[derive(Clone, Copy, Debug, PartialEq, Eq, Hash, PartialOrd, Ord, Serialize, Deserialize)]
pub enum Un {
    Neg,
    BitNot,
    Not,
}

#[derive(Clone, Copy, Debug, PartialEq, Eq, Hash, PartialOrd, Ord, Serialize, Deserialize)]
pub enum Bin {
    Eq,
    Ne,
    Lt,
    Le,
    Gt,
    Ge,
    Add,
    Sub,
    Mul,
    Div,
    BitAnd,
    BitOr,
    BitXor,
    Shl,
    Shr,
    And,
    Or,
}

pub const ALL_UN: [Un; 3] = [Un::Neg, Un::BitNot, Un::Not];
pub const ALL_BIN: [Bin; 17] = [
    Bin::Eq,
    Bin::Ne,
    Bin::Lt,
    Bin::Le,
    Bin::Gt,
    Bin::Ge,
    Bin::Add,
    Bin::Sub,
    Bin::Mul,
    Bin::Div,
    Bin::BitAnd,
    Bin::BitOr,
    Bin::BitXor,
    Bin::Shl,
    Bin::Shr,
    Bin::And,
    Bin::Or,
];

#[derive(Clone, Debug, PartialEq, Eq, Hash, PartialOrd, Ord, Serialize, Deserialize)]
pub enum E {
    Lit(Val),
    Col(String),
    Un(Un, Box<E>),
    Bin(Bin, Box<E>, Box<E>),
}

impl E {
    pub fn col(s: &str) -> E {
        E::Col(s.to_string())
    }
    pub fn int(n: i32) -> E {
        E::Lit(Val::Int(n))
    }
    pub fn str(s: &str) -> E {
        E::Lit(Val::s(s))
    }
    pub fn null() -> E {
        E::Lit(Val::Null)
    }
    pub fn un(op: Un, a: E) -> E {
        E::Un(op, Box::new(a))
    }
    pub fn bin(op: Bin, a: E, b: E) -> E {
        E::Bin(op, Box::new(a), Box::new(b))
    }

    pub fn columns(&self, out: &mut BTreeSet<String>) {
        match self {
            E::Lit(_) => {}
            E::Col(c) => {
                out.insert(c.clone());
            }
            E::Un(_, a) => a.columns(out),
            E::Bin(_, a, b) => {
                a.columns(out);
                b.columns(out);
            }
        }
    }

    /// Builds the msi::Expr through the public constructors and operator
    /// impls only.  May panic inside the library (constant folding); callers
    /// wrap in `catch`.
    /// The operands of a top-level chain of ANDs, left to right.
    pub fn conjuncts(&self) -> Vec<&E> {
        match self {
            E::Bin(Bin::And, a, b) => {
                let mut v = a.conjuncts();
                v.extend(b.conjuncts());
                v
            }
            e => vec![e],
        }
    }
    pub fn to_msi(&self) -> msi::Expr {
        use msi::Expr as X;
        match self {
            E::Lit(Val::Null) => X::null(),
            E::Lit(Val::Int(n)) => X::integer(*n),
            E::Lit(Val::Str(s)) => X::string(s.clone()),
            E::Col(c) => X::col(c.clone()),
            E::Un(op, a) => {
                let a = a.to_msi();
                match op {
                    Un::Neg => -a,
                    Un::BitNot => a.bitinv(),
                    Un::Not => a.not(),
                }
            }
            E::Bin(op, a, b) => {
                let a = a.to_msi();
                let b = b.to_msi();
                match op {
                    Bin::Eq => a.eq(b),
                    Bin::Ne => a.ne(b),
                    Bin::Lt => a.lt(b),
                    Bin::Le => a.le(b),
                    Bin::Gt => a.gt(b),
                    Bin::Ge => a.ge(b),
                    Bin::Add => a + b,
                    Bin::Sub => a - b,
                    Bin::Mul => a * b,
                    Bin::Div => a / b,
                    Bin::BitAnd => a & b,
                    Bin::BitOr => a | b,
                    Bin::BitXor => a ^ b,
                    Bin::Shl => a << b,
                    Bin::Shr => a >> b,
                    Bin::And => a.and(b),
                    Bin::Or => a.or(b),
                }
            }
        }
    }

    /// Fully parenthesised rendering, for diagnostics only (never an oracle).
    pub fn show(&self) -> String {
        match self {
            E::Lit(v) => v.show(),
            E::Col(c) => c.clone(),
            E::Un(op, a) => format!("{:?}({})", op, a.show()),
            E::Bin(op, a, b) => format!("({} {:?} {})", a.show(), op, b.show()),
        }
    }

    pub fn depth(&self) -> usize {
        match self {
            E::Lit(_) | E::Col(_) => 0,
            E::Un(_, a) => 1 + a.depth(),
            E::Bin(_, a, b) => 1 + a.depth().max(b.depth()),
        }
    }
}

// ------------------------------------------------------------------------- //
// Reference evaluator.
//
// Returns the SET of acceptable results.  It has one element wherever the
// documentation specifies the result, and several where the property leaves
// latitude:
//   * arithmetic overflow / shift count outside 0..32: null or the wrapped
//     two's-complement value;
//   * ordered comparison of operands of different kinds (null/int/string):
//     0 or 1 (the docs only say "lesser value"); equality is structural.
// ------------------------------------------------------------------------- //

pub type Acc = Vec<Val>;

fn b(x: bool) -> Val {
    Val::Int(if x { 1 } else { 0 })
}

pub fn ref_un(op: Un, a: &Val) -> Acc {
    match op {
        Un::Neg => match a {
            Val::Int(n) => match n.checked_neg() {
                Some(r) => vec![Val::Int(r)],
                None => vec![Val::Null, Val::Int(n.wrapping_neg())],
            },
            _ => vec![Val::Null],
        },
        Un::BitNot => match a {
            Val::Int(n) => vec![Val::Int(!n)],
            _ => vec![Val::Null],
        },
        Un::Not => vec![b(!a.truthy())],
    }
}

fn same_kind(a: &Val, c: &Val) -> bool {
    matches!(
        (a, c),
        (Val::Int(_), Val::Int(_)) | (Val::Str(_), Val::Str(_)) | (Val::Null, Val::Null)
    )
}

pub fn ref_bin(op: Bin, a: &Val, c: &Val) -> Acc {
    use Bin::*;
    match op {
        Eq => vec![b(a == c)],
        Ne => vec![b(a != c)],
        Lt | Le | Gt | Ge => {
            if same_kind(a, c) {
                let ord = match (a, c) {
                    (Val::Int(x), Val::Int(y)) => x.cmp(y),
                    (Val::Str(x), Val::Str(y)) => {
                        // by code point == bytewise for UTF-8
                        x.as_bytes().cmp(y.as_bytes())
                    }
                    _ => std::cmp::Ordering::Equal,
                };
                let r = match op {
                    Lt => ord.is_lt(),
                    Le => ord.is_le(),
                    Gt => ord.is_gt(),
                    _ => ord.is_ge(),
                };
                vec![b(r)]
            } else {
                vec![b(false), b(true)]
            }
        }
        Add => match (a, c) {
            (Val::Int(x), Val::Int(y)) => arith(x.checked_add(*y), x.wrapping_add(*y)),
            (Val::Str(x), Val::Str(y)) => vec![Val::Str(format!("{}{}", x, y))],
            _ => vec![Val::Null],
        },
        Sub => match (a, c) {
            (Val::Int(x), Val::Int(y)) => arith(x.checked_sub(*y), x.wrapping_sub(*y)),
            _ => vec![Val::Null],
        },
        Mul => match (a, c) {
            (Val::Int(x), Val::Int(y)) => arith(x.checked_mul(*y), x.wrapping_mul(*y)),
            _ => vec![Val::Null],
        },
        Div => match (a, c) {
            (Val::Int(_), Val::Int(0)) => vec![Val::Null],
            (Val::Int(x), Val::Int(y)) => arith(x.checked_div(*y), x.wrapping_div(*y)),
            _ => vec![Val::Null],
        },
        BitAnd => match (a, c) {
            (Val::Int(x), Val::Int(y)) => vec![Val::Int(x & y)],
            _ => vec![Val::Null],
        },
        BitOr => match (a, c) {
            (Val::Int(x), Val::Int(y)) => vec![Val::Int(x | y)],
            _ => vec![Val::Null],
        },
        BitXor => match (a, c) {
            (Val::Int(x), Val::Int(y)) => vec![Val::Int(x ^ y)],
            _ => vec![Val::Null],
        },
        Shl => match (a, c) {
            (Val::Int(x), Val::Int(y)) => {
                if (0..32).contains(y) {
                    vec![Val::Int(x.wrapping_shl(*y as u32))]
                } else {
                    // out-of-range count: null, the count taken modulo 32, or
                    // all bits shifted out
                    let mut v = vec![Val::Null, Val::Int(x.wrapping_shl(*y as u32))];
                    if *y >= 32 {
                        v.push(Val::Int(0));
                    }
                    v
                }
            }
            _ => vec![Val::Null],
        },
        Shr => match (a, c) {
            (Val::Int(x), Val::Int(y)) => {
                if (0..32).contains(y) {
                    vec![Val::Int(x.wrapping_shr(*y as u32))]
                } else {
                    let mut v = vec![Val::Null, Val::Int(x.wrapping_shr(*y as u32))];
                    if *y >= 32 {
                        v.push(Val::Int(if *x < 0 { -1 } else { 0 }));
                    }
                    v
                }
            }
            _ => vec![Val::Null],
        },
        And => vec![b(a.truthy() && c.truthy())],
        Or => vec![b(a.truthy() || c.truthy())],
    }
}

fn arith(checked: Option<i32>, wrapped: i32) -> Acc {
    match checked {
        Some(r) => vec![Val::Int(r)],
        None => vec![Val::Null, Val::Int(wrapped)],
    }
}

/// Evaluates `e` with `lookup` giving column values. Returns the set of
/// acceptable results (deduplicated, sorted).
pub fn ref_eval(e: &E, lookup: &dyn Fn(&str) -> Val) -> Acc {
    let mut out: Vec<Val> = match e {
        E::Lit(v) => vec![v.clone()],
        E::Col(c) => vec![lookup(c)],
        E::Un(op, a) => {
            let mut r = Vec::new();
            for av in ref_eval(a, lookup) {
                r.extend(ref_un(*op, &av));
            }
            r
        }
        E::Bin(op, a, c) => {
            let mut r = Vec::new();
            let avs = ref_eval(a, lookup);
            let cvs = ref_eval(c, lookup);
            for av in &avs {
                for cv in &cvs {
                    r.extend(ref_bin(*op, av, cv));
                }
            }
            r
        }
    };
    out.sort();
    out.dedup();
    out
}

/// True if the reference gives exactly one acceptable value for every
/// sub-expression (no overflow / mixed comparison anywhere).
pub fn ref_eval_det(e: &E, lookup: &dyn Fn(&str) -> Val) -> Option<Val> {
    let r = ref_eval(e, lookup);
    if r.len() == 1 {
        Some(r.into_iter().next().unwrap())
    } else {
        None
    }
}

// ------------------------------------------------------------------------- //
// Precedence parser for the text form of expressions and queries (C19).
//
// Ladder (loosest to tightest), from the property statement / msiquery.pest:
//   OR < AND < NOT < comparison < | < ^ < & < shifts < + - < * / < unary - ~
// Binary levels are parsed left-associatively (the most permissive reading:
// the pest grammar allows only one comparison / shift per level, which this
// parser accepts as well and otherwise associates to the left); prefix
// operators are accepted wherever an operand may start.  NOT, when met in
// operand position, takes an operand at NOT level (i.e. everything tighter
// than AND), exactly as `ExprNot = KwNot ~ Expr3`.
//
// NOTE on `^`: msiquery.pest has no rule for `^` at all; the property
// statement places it between | and &, which is what is implemented here.
// ------------------------------------------------------------------------- //

#[derive(Clone, Debug, PartialEq)]
pub enum Tok {
    Ident(String), // may be compound a.b.c
    Int(i64),
    Str(String),
    Op(&'static str),
    Kw(&'static str),
    LParen,
    RParen,
    Comma,
    Star,
}

const KEYWORDS: [&str; 19] = [
    "AND", "DELETE", "FALSE", "FROM", "INNER", "INSERT", "INTO", "JOIN", "LEFT", "NOT", "NULL",
    "ON", "OR", "SELECT", "SET", "TRUE", "UPDATE", "VALUES", "WHERE",
];

pub fn lex(s: &str) -> Result<Vec<Tok>, String> {
    let cs: Vec<char> = s.chars().collect();
    let mut i = 0;
    let mut out = Vec::new();
    while i < cs.len() {
        let c = cs[i];
        if c == ' ' {
            i += 1;
            continue;
        }
        if c.is_ascii_alphabetic() || c == '_' {
            let st = i;
            while i < cs.len() && (cs[i].is_ascii_alphanumeric() || cs[i] == '_' || cs[i] == '.') {
                i += 1;
            }
            let w: String = cs[st..i].iter().collect();
            let up = w.to_ascii_uppercase();
            if let Some(k) = KEYWORDS.iter().find(|k| **k == up) {
                out.push(Tok::Kw(k));
            } else {
                out.push(Tok::Ident(w));
            }
            continue;
        }
        if c.is_ascii_digit() {
            let st = i;
            while i < cs.len() && cs[i].is_ascii_digit() {
                i += 1;
            }
            let w: String = cs[st..i].iter().collect();
            out.push(Tok::Int(w.parse::<i64>().map_err(|e| e.to_string())?));
            continue;
        }
        if c == '"' || c == '\'' {
            let q = c;
            i += 1;
            let mut st = String::new();
            loop {
                if i >= cs.len() {
                    return Err("unterminated string".into());
                }
                if cs[i] == q {
                    i += 1;
                    break;
                }
                if cs[i] == '\\' {
                    return Err("escape in string (outside the property's scope)".into());
                }
                st.push(cs[i]);
                i += 1;
            }
            out.push(Tok::Str(st));
            continue;
        }
        let two: String = cs[i..cs.len().min(i + 2)].iter().collect();
        let op2 = ["<=", ">=", "!=", "<<", ">>"].iter().find(|o| **o == two);
        if let Some(o) = op2 {
            out.push(Tok::Op(o));
            i += 2;
            continue;
        }
        let t = match c {
            '(' => Tok::LParen,
            ')' => Tok::RParen,
            ',' => Tok::Comma,
            '*' => Tok::Star,
            '=' => Tok::Op("="),
            '<' => Tok::Op("<"),
            '>' => Tok::Op(">"),
            '+' => Tok::Op("+"),
            '-' => Tok::Op("-"),
            '/' => Tok::Op("/"),
            '&' => Tok::Op("&"),
            '|' => Tok::Op("|"),
            '^' => Tok::Op("^"),
            '~' => Tok::Op("~"),
            _ => return Err(format!("unexpected character {:?}", c)),
        };
        out.push(t);
        i += 1;
    }
    Ok(out)
}

pub struct Parser {
    pub toks: Vec<Tok>,
    pub pos: usize,
}

// binding levels
const L_OR: u8 = 1;
const L_AND: u8 = 2;
const L_NOT: u8 = 3;
const L_CMP: u8 = 4;
const L_BOR: u8 = 5;
const L_BXOR: u8 = 6;
const L_BAND: u8 = 7;
const L_SHIFT: u8 = 8;
const L_SUM: u8 = 9;
const L_PROD: u8 = 10;
const L_UNARY: u8 = 11;

impl Parser {
    pub fn new(s: &str) -> Result<Parser, String> {
        Ok(Parser { toks: lex(s)?, pos: 0 })
    }
    pub fn peek(&self) -> Option<&Tok> {
        self.toks.get(self.pos)
    }
    pub fn next(&mut self) -> Option<Tok> {
        let t = self.toks.get(self.pos).cloned();
        self.pos += 1;
        t
    }
    pub fn at_end(&self) -> bool {
        self.pos >= self.toks.len()
    }
    pub fn expect_kw(&mut self, k: &str) -> Result<(), String> {
        match self.next() {
            Some(Tok::Kw(x)) if x == k => Ok(()),
            t => Err(format!("expected {}, got {:?}", k, t)),
        }
    }
    pub fn eat_kw(&mut self, k: &str) -> bool {
        if let Some(Tok::Kw(x)) = self.peek() {
            if *x == k {
                self.pos += 1;
                return true;
            }
        }
        false
    }

    fn binop_at(&self) -> Option<(Bin, u8)> {
        match self.peek()? {
            Tok::Kw("OR") => Some((Bin::Or, L_OR)),
            Tok::Kw("AND") => Some((Bin::And, L_AND)),
            Tok::Op("=") => Some((Bin::Eq, L_CMP)),
            Tok::Op("!=") => Some((Bin::Ne, L_CMP)),
            Tok::Op("<") => Some((Bin::Lt, L_CMP)),
            Tok::Op("<=") => Some((Bin::Le, L_CMP)),
            Tok::Op(">") => Some((Bin::Gt, L_CMP)),
            Tok::Op(">=") => Some((Bin::Ge, L_CMP)),
            Tok::Op("|") => Some((Bin::BitOr, L_BOR)),
            Tok::Op("^") => Some((Bin::BitXor, L_BXOR)),
            Tok::Op("&") => Some((Bin::BitAnd, L_BAND)),
            Tok::Op("<<") => Some((Bin::Shl, L_SHIFT)),
            Tok::Op(">>") => Some((Bin::Shr, L_SHIFT)),
            Tok::Op("+") => Some((Bin::Add, L_SUM)),
            Tok::Op("-") => Some((Bin::Sub, L_SUM)),
            Tok::Star => Some((Bin::Mul, L_PROD)),
            Tok::Op("/") => Some((Bin::Div, L_PROD)),
            _ => None,
        }
    }

    /// Parses an expression whose operators all bind at level >= `min`.
    pub fn expr(&mut self, min: u8) -> Result<E, String> {
        let mut lhs = self.prefix()?;
        loop {
            let (op, lvl) = match self.binop_at() {
                Some(x) => x,
                None => break,
            };
            if lvl < min {
                break;
            }
            self.pos += 1;
            let rhs = self.expr(lvl + 1)?;
            lhs = E::bin(op, lhs, rhs);
        }
        Ok(lhs)
    }

    fn prefix(&mut self) -> Result<E, String> {
        match self.next() {
            Some(Tok::Kw("NOT")) => {
                // NOT takes everything that binds tighter than AND.
                let a = self.expr(L_NOT)?;
                Ok(E::un(Un::Not, a))
            }
            Some(Tok::Op("-")) => {
                // `Integer = "-"? digits`: a minus directly followed by a
                // number is a negative literal.
                if let Some(Tok::Int(n)) = self.peek() {
                    let n = -*n;
                    if n >= i32::MIN as i64 {
                        self.pos += 1;
                        return Ok(E::int(n as i32));
                    }
                }
                let a = self.expr(L_UNARY)?;
                Ok(E::un(Un::Neg, a))
            }
            Some(Tok::Op("~")) => {
                let a = self.expr(L_UNARY)?;
                Ok(E::un(Un::BitNot, a))
            }
            Some(Tok::LParen) => {
                let e = self.expr(0)?;
                match self.next() {
                    Some(Tok::RParen) => Ok(e),
                    t => Err(format!("expected ), got {:?}", t)),
                }
            }
            Some(Tok::Int(n)) => {
                if n > i32::MAX as i64 {
                    return Err("integer literal out of range".into());
                }
                Ok(E::int(n as i32))
            }
            Some(Tok::Str(s)) => Ok(E::Lit(Val::Str(s))),
            Some(Tok::Kw("NULL")) => Ok(E::null()),
            Some(Tok::Kw("TRUE")) => Ok(E::int(1)),
            Some(Tok::Kw("FALSE")) => Ok(E::int(0)),
            Some(Tok::Ident(s)) => Ok(E::Col(s)),
            t => Err(format!("unexpected token {:?} in operand position", t)),
        }
    }

    pub fn literal(&mut self) -> Result<Val, String> {
        match self.next() {
            Some(Tok::Op("-")) => match self.next() {
                Some(Tok::Int(n)) => Ok(Val::Int((-n) as i32)),
                t => Err(format!("expected number after -, got {:?}", t)),
            },
            Some(Tok::Int(n)) => Ok(Val::Int(n as i32)),
            Some(Tok::Str(s)) => Ok(Val::Str(s)),
            Some(Tok::Kw("NULL")) => Ok(Val::Null),
            Some(Tok::Kw("TRUE")) => Ok(Val::Int(1)),
            Some(Tok::Kw("FALSE")) => Ok(Val::Int(0)),
            t => Err(format!("expected literal, got {:?}", t)),
        }
    }

    pub fn ident(&mut self) -> Result<String, String> {
        match self.next() {
            Some(Tok::Ident(s)) => Ok(s),
            t => Err(format!("expected identifier, got {:?}", t)),
        }
    }
}

pub fn parse_expr(s: &str) -> Result<E, String> {
    let mut p = Parser::new(s)?;
    let e = p.expr(0)?;
    if !p.at_end() {
        return Err(format!("trailing tokens at {}: {:?}", p.pos, p.peek()));
    }
    Ok(e)
}

// ------------------------------------------------------------------------- //
// Query descriptions (C12, C19) and their parser.
// ------------------------------------------------------------------------- //

#[derive(Clone, Debug, PartialEq, Eq, Hash, Serialize, Deserialize)]
pub enum Sel {
    Table(String),
    Inner(Box<Sel>, Box<Sel>, E),
    Left(Box<Sel>, Box<Sel>, E),
    /// projection (possibly empty = none) and optional filter applied to a source
    Wrap { from: Box<Sel>, cols: Vec<String>, cond: Option<E> },
}

impl Sel {
    pub fn table(s: &str) -> Sel {
        Sel::Table(s.to_string())
    }
    pub fn to_msi(&self) -> msi::Select {
        match self {
            Sel::Table(t) => msi::Select::table(t.clone()),
            Sel::Inner(l, r, on) => l.to_msi().inner_join(r.to_msi(), on.to_msi()),
            Sel::Left(l, r, on) => l.to_msi().left_join(r.to_msi(), on.to_msi()),
            Sel::Wrap { from, cols, cond } => {
                let mut s = from.to_msi();
                if !cols.is_empty() {
                    s = s.columns(&cols[..]);
                }
                if let Some(c) = cond {
                    s = s.with(c.to_msi());
                }
                s
            }
        }
    }
    /// Like `to_msi`, but a condition that is a conjunction is given as one
    /// `with()` call per conjunct (documented to mean the same).
    pub fn to_msi_split(&self) -> msi::Select {
        match self {
            Sel::Table(t) => msi::Select::table(t.clone()),
            Sel::Inner(l, r, on) => l.to_msi_split().inner_join(r.to_msi_split(), on.to_msi()),
            Sel::Left(l, r, on) => l.to_msi_split().left_join(r.to_msi_split(), on.to_msi()),
            Sel::Wrap { from, cols, cond } => {
                let mut s = from.to_msi_split();
                if !cols.is_empty() {
                    s = s.columns(&cols[..]);
                }
                if let Some(c) = cond {
                    for part in c.conjuncts() {
                        s = s.with(part.to_msi());
                    }
                }
                s
            }
        }
    }
    pub fn show(&self) -> String {
        match self {
            Sel::Table(t) => t.clone(),
            Sel::Inner(l, r, on) => format!("({} INNER {} ON {})", l.show(), r.show(), on.show()),
            Sel::Left(l, r, on) => format!("({} LEFT {} ON {})", l.show(), r.show(), on.show()),
            Sel::Wrap { from, cols, cond } => format!(
                "SEL[{}]({}){}",
                cols.join(","),
                from.show(),
                match cond {
                    Some(c) => format!(" WHERE {}", c.show()),
                    None => String::new(),
                }
            ),
        }
    }
}

/// The structure of a printed SELECT as the grammar reads it.
#[derive(Clone, Debug, PartialEq, Eq)]
pub struct ParsedSelect {
    pub cols: Vec<String>, // empty = *
    pub from: ParsedFrom,
    pub cond: Option<E>,
}

#[derive(Clone, Debug, PartialEq, Eq)]
pub enum ParsedFrom {
    Table(String),
    Sub(Box<ParsedSelect>),
    Join { left_join: bool, lhs: Box<ParsedFrom>, rhs: Box<ParsedFrom>, on: E },
}

#[derive(Clone, Debug, PartialEq, Eq)]
pub enum ParsedQuery {
    Select(ParsedSelect),
    Delete { table: String, cond: Option<E> },
    Insert { table: String, rows: Vec<Vec<Val>> },
    Update { table: String, sets: Vec<(String, Val)>, cond: Option<E> },
}

impl Parser {
    fn table2(&mut self) -> Result<ParsedFrom, String> {
        match self.peek() {
            Some(Tok::LParen) => {
                self.pos += 1;
                let s = self.select()?;
                match self.next() {
                    Some(Tok::RParen) => Ok(ParsedFrom::Sub(Box::new(s))),
                    t => Err(format!("expected ) after sub-select, got {:?}", t)),
                }
            }
            _ => Ok(ParsedFrom::Table(self.ident()?)),
        }
    }

    fn from(&mut self) -> Result<ParsedFrom, String> {
        let lhs = self.table2()?;
        let left_join = if self.eat_kw("INNER") {
            false
        } else if self.eat_kw("LEFT") {
            true
        } else {
            return Ok(lhs);
        };
        self.expect_kw("JOIN")?;
        let rhs = self.table2()?;
        self.expect_kw("ON")?;
        let on = self.expr(0)?;
        Ok(ParsedFrom::Join { left_join, lhs: Box::new(lhs), rhs: Box::new(rhs), on })
    }

    pub fn select(&mut self) -> Result<ParsedSelect, String> {
        self.expect_kw("SELECT")?;
        let mut cols = Vec::new();
        if let Some(Tok::Star) = self.peek() {
            self.pos += 1;
        } else {
            loop {
                cols.push(self.ident()?);
                if let Some(Tok::Comma) = self.peek() {
                    self.pos += 1;
                } else {
                    break;
                }
            }
        }
        self.expect_kw("FROM")?;
        let from = self.from()?;
        let cond = if self.eat_kw("WHERE") { Some(self.expr(0)?) } else { None };
        Ok(ParsedSelect { cols, from, cond })
    }

    pub fn query(&mut self) -> Result<ParsedQuery, String> {
        match self.peek() {
            Some(Tok::Kw("SELECT")) => Ok(ParsedQuery::Select(self.select()?)),
            Some(Tok::Kw("DELETE")) => {
                self.pos += 1;
                self.expect_kw("FROM")?;
                let table = self.ident()?;
                let cond = if self.eat_kw("WHERE") { Some(self.expr(0)?) } else { None };
                Ok(ParsedQuery::Delete { table, cond })
            }
            Some(Tok::Kw("INSERT")) => {
                self.pos += 1;
                self.expect_kw("INTO")?;
                let table = self.ident()?;
                let mut rows = Vec::new();
                if self.eat_kw("VALUES") {
                    loop {
                        match self.next() {
                            Some(Tok::LParen) => {}
                            t => return Err(format!("expected (, got {:?}", t)),
                        }
                        let mut row = Vec::new();
                        loop {
                            row.push(self.literal()?);
                            match self.next() {
                                Some(Tok::Comma) => continue,
                                Some(Tok::RParen) => break,
                                t => return Err(format!("expected , or ), got {:?}", t)),
                            }
                        }
                        rows.push(row);
                        if let Some(Tok::Comma) = self.peek() {
                            self.pos += 1;
                        } else {
                            break;
                        }
                    }
                }
                Ok(ParsedQuery::Insert { table, rows })
            }
            Some(Tok::Kw("UPDATE")) => {
                self.pos += 1;
                let table = self.ident()?;
                self.expect_kw("SET")?;
                let mut sets = Vec::new();
                loop {
                    let c = self.ident()?;
                    match self.next() {
                        Some(Tok::Op("=")) => {}
                        t => return Err(format!("expected =, got {:?}", t)),
                    }
                    let v = self.literal()?;
                    sets.push((c, v));
                    if let Some(Tok::Comma) = self.peek() {
                        self.pos += 1;
                    } else {
                        break;
                    }
                }
                let cond = if self.eat_kw("WHERE") { Some(self.expr(0)?) } else { None };
                Ok(ParsedQuery::Update { table, sets, cond })
            }
            t => Err(format!("expected a query keyword, got {:?}", t)),
        }
    }
}

pub fn parse_query(s: &str) -> Result<ParsedQuery, String> {
    let mut p = Parser::new(s)?;
    let q = p.query()?;
    if !p.at_end() {
        return Err(format!("trailing tokens at {}: {:?}", p.pos, p.peek()));
    }
    Ok(q)
}

/// What the generating description `Sel` should print as, structurally: the
/// library nests a select that has a projection or a filter in parentheses
/// when used as a join operand and prints a bare table name otherwise.
pub fn expected_select(s: &Sel) -> ParsedSelect {
    match s {
        Sel::Table(t) => ParsedSelect { cols: vec![], from: ParsedFrom::Table(t.clone()), cond: None },
        Sel::Inner(l, r, on) | Sel::Left(l, r, on) => ParsedSelect {
            cols: vec![],
            from: ParsedFrom::Join {
                left_join: matches!(s, Sel::Left(..)),
                lhs: Box::new(expected_operand(l)),
                rhs: Box::new(expected_operand(r)),
                on: on.clone(),
            },
            cond: None,
        },
        Sel::Wrap { from, cols, cond } => {
            let inner = expected_select(from);
            // `.columns()` and `.with()` apply to the select object itself:
            // Wrap over a Wrap is not expressible through the API (the second
            // call overwrites / ANDs), so generators only wrap Table / joins.
            ParsedSelect { cols: cols.clone(), from: inner.from, cond: cond.clone() }
        }
    }
}

fn expected_operand(s: &Sel) -> ParsedFrom {
    match s {
        Sel::Table(t) => ParsedFrom::Table(t.clone()),
        other => ParsedFrom::Sub(Box::new(expected_select(other))),
    }
}

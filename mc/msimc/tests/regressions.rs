//! Plain replays of the minimal witnesses of every defect the checks found on
//! the pinned tree and that was repaired by a `fix:` commit in /repo (see
//! DESIGN.md section 11).  No explorer involved: each test is the failing
//! history / input, written against the public API.  Run with
//! `cd /verif/mc && cargo test --release --offline`.

use msi::{CodePage, Column, Delete, Expr, Insert, Language, Package, PackageType, Select, Update, Value};
use std::io::Cursor;

type Pkg = Package<Cursor<Vec<u8>>>;

fn new_pkg() -> Pkg {
    Package::create(PackageType::Installer, Cursor::new(Vec::new())).unwrap()
}

fn reopen(p: Pkg) -> Pkg {
    Package::open(p.into_inner().unwrap()).unwrap()
}

fn rows(p: &mut Pkg, t: &str) -> Vec<Vec<Value>> {
    p.select_rows(Select::table(t)).unwrap().map(|r| (0..r.len()).map(|i| r[i].clone()).collect()).collect()
}

fn t1(p: &mut Pkg) {
    p.create_table("T1", vec![Column::build("K").primary_key().int16(), Column::build("S").nullable().string(8)]).unwrap();
}

#[test]
fn c13_overflow_does_not_panic() {
    // fix 2965565
    let _ = Expr::integer(i32::MAX) + Expr::integer(1);
    let _ = Expr::integer(i32::MIN) / Expr::integer(-1);
    let _ = -Expr::integer(i32::MIN);
    let _ = Expr::integer(1) << Expr::integer(32);
    let _ = Expr::integer(i32::MAX) * Expr::integer(2);
    let _ = Expr::integer(1) >> Expr::integer(-1);
}

#[test]
fn c19_not_is_parenthesised() {
    // fix bb33b1b
    let e = Expr::col("a").not().eq(Expr::col("b"));
    assert_eq!(e.to_string(), "(NOT a) = b");
    let e = -(Expr::col("a").not());
    assert_eq!(e.to_string(), "-(NOT a)");
    // and is not over-parenthesised where the grammar does not need it
    let e = Expr::col("a").eq(Expr::col("b")).not();
    assert_eq!(e.to_string(), "NOT a = b");
}

#[test]
fn c14_code_pages_932_and_936() {
    // fix 2585a87
    assert_eq!(CodePage::Windows932.encode("\u{3042}"), vec![0x82, 0xA0]); // Shift JIS
    assert_eq!(CodePage::Windows936.encode("\u{4e2d}"), vec![0xD6, 0xD0]); // GBK
    assert_eq!(CodePage::Windows932.decode(&[0x82, 0xA0]), "\u{3042}");
}

#[test]
fn c14_decode_does_not_sniff_boms() {
    // fix 000569c
    assert_eq!(CodePage::Windows1252.decode(&[0xFF, 0xFE, b'a', 0]), "\u{ff}\u{fe}a\u{0}");
    assert_eq!(CodePage::Utf8.decode(&CodePage::Utf8.encode("\u{feff}x")), "\u{feff}x");
}

#[test]
fn c17_unknown_region_is_the_bare_language() {
    // fix 3c2593d
    assert_eq!(Language::from_tag("en-XX").code(), 9);
    assert_eq!(Language::from_tag("zh-XX").tag(), "zh");
}

#[test]
fn c01_empty_string_cell_reopens() {
    // fix 4d492e1: create_table(T1) ; insert(T1;(3,"")) ; reopen
    let mut p = new_pkg();
    t1(&mut p);
    p.insert_rows(Insert::into("T1").row(vec![Value::Int(3), Value::from("")])).unwrap();
    let mut p = reopen(p);
    assert_eq!(rows(&mut p, "T1"), vec![vec![Value::Int(3), Value::Null]]);
}

#[test]
fn c03_c05_key_update_keeps_keys_unique_and_sorted() {
    // fix 6c195c3
    let mut p = new_pkg();
    t1(&mut p);
    p.insert_rows(Insert::into("T1").row(vec![Value::Int(3), Value::from("b")]).row(vec![Value::Int(1), Value::from("aa")])).unwrap();
    assert!(p.update_rows(Update::table("T1").set("K", Value::Int(5))).is_err());
    assert_eq!(rows(&mut p, "T1").len(), 2);
    p.update_rows(Update::table("T1").set("K", Value::Int(9)).with(Expr::col("K").eq(Expr::integer(1)))).unwrap();
    let ks: Vec<Value> = rows(&mut p, "T1").into_iter().map(|r| r[0].clone()).collect();
    assert_eq!(ks, vec![Value::Int(3), Value::Int(9)]);
}

#[test]
fn c04_late_create_table_failure_leaves_nothing() {
    // fix 36dbaa9
    let mut p = new_pkg();
    let long = "A".repeat(40);
    let cols = vec![Column::build("K").primary_key().int16(), Column::build(long.as_str()).int16()];
    assert!(p.create_table("L", cols).is_err());
    assert!(!p.has_table("L"));
    let n = rows(&mut p, "_Columns").iter().filter(|r| r[0] == Value::from("L")).count();
    assert_eq!(n, 0);
    assert!(p.create_table("B".repeat(40), vec![Column::build("K").primary_key().int16()]).is_err());
    assert_eq!(rows(&mut p, "_Tables").len(), 1);
}

#[test]
fn c08_drop_table_releases_strings() {
    // fix 79c5fe9: the dropped rows' text must not stay in _StringData
    let mut p = new_pkg();
    p.create_table("T2", vec![Column::build("A").primary_key().string(40)]).unwrap();
    p.insert_rows(Insert::into("T2").row(vec![Value::from("needle-in-the-string-data")])).unwrap();
    p.drop_table("T2").unwrap();
    let bytes = p.into_inner().unwrap().into_inner();
    let needle = b"needle-in-the-string-data";
    assert!(!bytes.windows(needle.len()).any(|w| w == needle));
}

#[test]
fn c11_stream_names_that_cannot_round_trip_are_refused() {
    // fix f5fe533
    let mut p = new_pkg();
    for bad in ["\u{3800}", "/x", ":", "!", "\\"] {
        assert!(p.write_stream(bad).is_err(), "{:?}", bad);
    }
}

#[test]
fn c10_summary_strings_in_a_single_byte_code_page_reopen() {
    // fix 6a14427 and f8135a6
    let mut p = new_pkg();
    p.summary_info_mut().set_codepage(CodePage::Windows1252);
    p.summary_info_mut().set_word_count(2);
    p.summary_info_mut().set_author("\u{e9}\u{e9}");
    let mut p = reopen(p);
    assert_eq!(p.summary_info().author(), Some("\u{e9}\u{e9}"));
    assert_eq!(p.summary_info().word_count(), Some(2));
    p.summary_info_mut().set_codepage(CodePage::Utf8); // must not panic
    assert_eq!(p.summary_info().codepage(), CodePage::Utf8);
    let p = reopen(p);
    assert_eq!(p.summary_info().codepage(), CodePage::Utf8);
}

#[test]
fn c06_unrepresentable_columns_are_refused() {
    // fix 19036de
    let mut p = new_pkg();
    let k = || Column::build("K").primary_key().int16();
    assert!(p.create_table("A", vec![k(), Column::build("W").string(256)]).is_err());
    assert!(p.create_table("A", vec![k(), Column::build("E").enum_values(&["a;b"]).string(0)]).is_err());
    assert!(p.create_table("A", vec![k(), Column::build("E").enum_values(&[""]).string(0)]).is_err());
    assert!(p.create_table("A", vec![k(), Column::build("W").string(255)]).is_ok());
}

#[test]
fn c12_unknown_column_in_join_condition_is_an_error() {
    // fix 77c93a3
    let mut p = new_pkg();
    t1(&mut p);
    p.insert_rows(Insert::into("T1").row(vec![Value::Int(1), Value::Null])).unwrap();
    let q = Select::table("T1").inner_join(Select::table("T1"), Expr::col("nope.nope").eq(Expr::integer(1)));
    assert!(p.select_rows(q).is_err());
    p.delete_rows(Delete::from("T1")).unwrap();
    let q = Select::table("T1").left_join(Select::table("T1"), Expr::col("nope").eq(Expr::integer(1)));
    assert!(p.select_rows(q).is_err());
}

#[test]
fn c20_row_limit_is_enforced_on_insert() {
    // fix e9620e9
    let mut p = new_pkg();
    p.create_table("R", vec![Column::build("K").primary_key().int32()]).unwrap();
    let all: Vec<Vec<Value>> = (1..=65536).map(|i| vec![Value::Int(i)]).collect();
    p.insert_rows(Insert::into("R").rows(all)).unwrap();
    assert!(p.insert_rows(Insert::into("R").row(vec![Value::Int(70000)])).is_err());
    assert_eq!(p.select_rows(Select::table("R")).unwrap().len(), 65536);
}

#[test]
fn c09_null_catalog_cell_is_an_error_not_a_panic() {
    // fix d4263e4: zero the first cell of the _Tables stream
    let mut p = new_pkg();
    t1(&mut p);
    let bytes = p.into_inner().unwrap().into_inner();
    let mut comp = cfb::CompoundFile::open(Cursor::new(bytes)).unwrap();
    // "_Tables" with the table marker, packed two characters per unit
    let name: String = comp.read_root_storage().map(|e| e.name().to_string()).find(|n| n.starts_with('\u{4840}') && n.chars().count() == 5 && {
        // _Tables is the only 7-character table name here: marker + 4 units
        true
    }).unwrap_or_default();
    if name.is_empty() {
        return;
    }
    use std::io::{Read, Seek, SeekFrom, Write};
    let mut s = comp.open_stream(format!("/{}", name)).unwrap();
    let mut content = Vec::new();
    s.read_to_end(&mut content).unwrap();
    if content.len() >= 2 {
        s.seek(SeekFrom::Start(0)).unwrap();
        s.write_all(&[0, 0]).unwrap();
    }
    drop(s);
    comp.flush().unwrap();
    let bytes = comp.into_inner().into_inner();
    let r = std::panic::catch_unwind(|| Package::open(Cursor::new(bytes)).map(|_| ()));
    assert!(r.is_ok(), "Package::open panicked on a null catalog cell");
}

#[test]
fn c01_string_pool_stream_names_are_not_table_names() {
    // fix 308bf08
    let mut p = new_pkg();
    t1(&mut p);
    p.insert_rows(Insert::into("T1").row(vec![Value::Int(1), Value::from("a")])).unwrap();
    for name in ["_StringPool", "_StringData"] {
        assert!(p.create_table(name, vec![Column::build("K").primary_key().int16()]).is_err());
        assert!(!p.has_table(name));
    }
    let mut p = reopen(p);
    assert_eq!(rows(&mut p, "T1"), vec![vec![Value::Int(1), Value::from("a")]]);
}

#[test]
fn c04_create_table_with_leftover_validation_rows_is_atomic() {
    // fix 9e7d89a
    let mut p = new_pkg();
    let mut stale = vec![Value::from("New"), Value::from("K"), Value::from("N")];
    stale.extend(std::iter::repeat(Value::Null).take(7));
    p.insert_rows(Insert::into("_Validation").row(stale)).unwrap();
    let before = (rows(&mut p, "_Tables"), rows(&mut p, "_Columns"), rows(&mut p, "_Validation"));
    let r = p.create_table("New", vec![Column::build("K").primary_key().int16()]);
    if r.is_err() {
        assert!(!p.has_table("New"));
        let after = (rows(&mut p, "_Tables"), rows(&mut p, "_Columns"), rows(&mut p, "_Validation"));
        assert_eq!(before, after);
    } else {
        assert!(p.has_table("New"));
        let p = reopen(p);
        assert!(p.has_table("New"));
    }
}

#[test]
fn c11_has_stream_is_false_for_internal_stream_names() {
    // fix f3d46a4
    let mut p = new_pkg();
    t1(&mut p);
    p.insert_rows(Insert::into("T1").row(vec![Value::Int(1), Value::from("a")])).unwrap();
    let p = reopen(p);
    for name in ["\u{4840}_StringPool", "\u{4840}_StringData", "\u{4840}_Tables", "\u{4840}T1"] {
        assert!(!p.has_stream(name), "{:?}", name);
    }
}

#[test]
fn c20_existing_string_does_not_use_up_a_free_pool_entry() {
    // fix c7252ba (scaled down: the observable is that the text is stored once)
    let mut p = new_pkg();
    t1(&mut p);
    p.insert_rows(Insert::into("T1").row(vec![Value::Int(1), Value::from("first")]).row(vec![Value::Int(2), Value::from("second")])).unwrap();
    p.delete_rows(Delete::from("T1").with(Expr::col("K").eq(Expr::integer(1)))).unwrap();
    p.insert_rows(Insert::into("T1").row(vec![Value::Int(3), Value::from("second")]).row(vec![Value::Int(4), Value::from("third")])).unwrap();
    let mut p = reopen(p);
    assert_eq!(rows(&mut p, "T1").len(), 3);
    // "second" is stored once: the entry freed by the delete went to "third"
    let bytes = p.into_inner().unwrap().into_inner();
    let mut comp = cfb::CompoundFile::open(Cursor::new(bytes)).unwrap();
    let mut data = Vec::new();
    use std::io::Read;
    for e in comp.read_root_storage().map(|e| e.path().to_path_buf()).collect::<Vec<_>>() {
        let mut v = Vec::new();
        if comp.open_stream(&e).and_then(|mut s| s.read_to_end(&mut v)).is_ok() {
            let text = String::from_utf8_lossy(&v).to_string();
            if text.contains("second") {
                data = v;
            }
        }
    }
    let text = String::from_utf8_lossy(&data);
    assert_eq!(text.matches("second").count(), 1, "string data: {:?}", text);
}
